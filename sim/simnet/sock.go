package simnet

import (
	"io"
	"net"
	"os"
	"syscall"

	"github.com/hugelgupf/p9/zzverif/simrt"
)

// SockReader delivers a byte stream through a real AF_UNIX SOCK_STREAM socket
// pair, so that a receiver that type-asserts its reader to syscall.Conn (p9's
// vecnet) takes its recvmsg/iovec path — under full control of the
// simulation: the harness queues bytes with Feed, and each read operation
// first moves exactly one planned segment into the kernel socket and then
// performs the real read.  A read therefore never finds the socket empty, so
// nothing ever blocks in the netpoller and the execution is a function of the
// tape alone.
type SockReader struct {
	Name    string
	conn    *net.UnixConn // receiving end
	peer    int           // fd we write into
	pending []byte        // queued, not yet in the kernel
	inSock  int           // bytes in the kernel socket not yet read
	eof     bool          // Feed side finished
	shut    bool
	closed  bool
	Seg     int
	Cuts    []int64
	fed     int64 // stream offset of the first pending byte
	Reads   int
	RawReads int
	consumed int64
	Obs     Observer
	pipeID  *Pipe // identity handed to the observer
}

func NewSockReader(name string) (*SockReader, error) {
	fds, err := syscall.Socketpair(syscall.AF_UNIX, syscall.SOCK_STREAM|syscall.SOCK_CLOEXEC, 0)
	if err != nil {
		return nil, err
	}
	f := os.NewFile(uintptr(fds[0]), name)
	c, err := net.FileConn(f)
	f.Close()
	if err != nil {
		syscall.Close(fds[1])
		return nil, err
	}
	return &SockReader{Name: name, conn: c.(*net.UnixConn), peer: fds[1], pipeID: NewPipe(name)}, nil
}

// Feed queues bytes for delivery.
func (s *SockReader) Feed(b []byte) { s.pending = append(s.pending, b...) }

// FinishFeed marks the end of the stream (EOF after the queued bytes).
func (s *SockReader) FinishFeed() { s.eof = true }

func (s *SockReader) Consumed() int64 { return s.consumed }
func (s *SockReader) Identity() *Pipe { return s.pipeID }

func (s *SockReader) ready() bool {
	return s.closed || len(s.pending) > 0 || s.inSock > 0 || s.eof
}

// stage moves one segment into the kernel socket (or signals EOF).
func (s *SockReader) stage(max int) {
	if s.inSock > 0 {
		return
	}
	if len(s.pending) == 0 {
		if s.eof && !s.shut {
			syscall.Shutdown(s.peer, syscall.SHUT_WR)
			s.shut = true
		}
		return
	}
	n := len(s.pending)
	switch s.Seg {
	case SegByte:
		n = 1
	case SegRandom:
		if n > 1 {
			n = n - simrt.Choose(n)
		}
	case SegPlan:
		for _, c := range s.Cuts {
			if c > s.fed && c < s.fed+int64(n) {
				n = int(c - s.fed)
				break
			}
		}
	}
	if n > 1<<15 {
		n = 1 << 15 // stay far below the socket buffer size
	}
	w, err := syscall.Write(s.peer, s.pending[:n])
	if err != nil || w != n {
		panic("simnet: short write into socketpair")
	}
	s.pending = s.pending[n:]
	s.fed += int64(n)
	s.inSock += n
}

func (s *SockReader) account(n int) {
	if n > 0 {
		s.inSock -= n
		s.consumed += int64(n)
		s.pipeID.consumed = s.consumed
		if s.Obs != nil {
			s.Obs.Consumed(s.pipeID, simrt.Current(), n)
		}
	}
}

// Read implements io.Reader (p9 reads the 7-byte header this way).
func (s *SockReader) Read(p []byte) (int, error) {
	simrt.Block("read "+s.Name, s.ready)
	if s.closed {
		return 0, ErrClosed
	}
	s.Reads++
	s.stage(len(p))
	n, err := s.conn.Read(p)
	s.account(n)
	return n, err
}

func (s *SockReader) Close() error {
	if !s.closed {
		s.closed = true
		s.conn.Close()
		syscall.Close(s.peer)
	}
	return nil
}

// SyscallConn implements syscall.Conn.
func (s *SockReader) SyscallConn() (syscall.RawConn, error) {
	rc, err := s.conn.SyscallConn()
	if err != nil {
		return nil, err
	}
	return &rawConn{s: s, rc: rc}, nil
}

type rawConn struct {
	s  *SockReader
	rc syscall.RawConn
}

func (r *rawConn) Control(f func(fd uintptr)) error { return r.rc.Control(f) }
func (r *rawConn) Write(f func(fd uintptr) bool) error { return r.rc.Write(f) }

// Read stages one segment, then lets the caller's function (recvmsg) run
// against the real descriptor; the bytes it took are inferred from the socket.
func (r *rawConn) Read(f func(fd uintptr) bool) error {
	s := r.s
	simrt.Block("recvmsg "+s.Name, s.ready)
	if s.closed {
		return ErrClosed
	}
	s.RawReads++
	s.stage(1 << 30)
	before := s.inSock
	err := r.rc.Read(f)
	// how much is left in the socket?
	left := 0
	r.rc.Control(func(fd uintptr) {
		var n int
		_, _, e := syscall.Syscall(syscall.SYS_IOCTL, fd, uintptr(syscall.TIOCINQ), uintptr(ptr(&n)))
		if e == 0 {
			left = n
		}
	})
	s.account(before - left)
	return err
}

var _ io.ReadCloser = (*SockReader)(nil)
