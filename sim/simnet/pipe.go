// Package simnet is the simulated transport: ordered, reliable, in-memory byte
// pipes whose every Read and Write is a scheduling point, with tape-chosen
// segmentation, back-pressure and injected EOF / errors at arbitrary bytes.
package simnet

import (
	"errors"
	"io"

	"github.com/hugelgupf/p9/zzverif/simrt"
)

// Segmentation policies.
const (
	SegWhole  = 0 // a Read returns everything available (up to len(p))
	SegByte   = 1 // a Read returns one byte
	SegRandom = 2 // a Read returns 1..available bytes, chosen by the tape
	SegPlan   = 3 // reads are cut at the offsets given in Pipe.Cuts
)

var (
	ErrInjected = errors.New("simnet: injected I/O error")
	ErrClosed   = errors.New("simnet: use of closed connection")
)

// Observer sees every byte written into a pipe, attributed to the writing task.
type Observer interface {
	Wrote(p *Pipe, task *simrt.Task, b []byte)
	ReadIssued(p *Pipe, task *simrt.Task, buflen int)
	Consumed(p *Pipe, task *simrt.Task, n int)
}

// Pipe is one direction of a connection.
type Pipe struct {
	Name string
	buf  []byte
	// Cap bounds the bytes in flight (0 = unbounded): writers block when full.
	Cap int
	Seg int
	// Cuts are absolute stream offsets at which a read must stop (SegPlan).
	Cuts []int64

	wclosed bool // writer closed: reader sees EOF after draining
	rclosed bool // reader closed: writes fail

	// Fault plan (absolute stream offsets; -1 = none).
	// ReadEOFAt: the reader sees only the first ReadEOFAt bytes, then EOF.
	ReadEOFAt int64
	// ReadErrAt: as ReadEOFAt but a non-EOF error.
	ReadErrAt int64
	// WriteErrAfter: the n-th Write call (0-based) and all later ones fail.
	WriteErrAfter int
	// EOFWithData: deliver the final bytes together with io.EOF in one Read
	// (legal for an io.Reader).
	EOFWithData bool
	// Stalled: reader is not given data while set (back-pressure studies).
	Stalled bool

	written  int64 // bytes accepted from the writer
	consumed int64 // bytes handed to the reader
	nwrites  int
	// MaxReadBuf is the largest len(p) a reader ever passed to Read.
	MaxReadBuf int
	Reads      int
	Writes     int
	SplitReads int // reads that returned fewer bytes than were available and fit
	WriteErrors int // injected write errors that actually fired
	dead       bool
	Obs        Observer
}

func NewPipe(name string) *Pipe {
	return &Pipe{Name: name, ReadEOFAt: -1, ReadErrAt: -1, WriteErrAfter: -1}
}

// Written / Consumed are stream positions.
func (p *Pipe) Written() int64  { return p.written }
func (p *Pipe) Consumed() int64 { return p.consumed }
func (p *Pipe) Buffered() int   { return len(p.buf) }

func (p *Pipe) limit() int64 {
	l := int64(-1)
	if p.ReadEOFAt >= 0 {
		l = p.ReadEOFAt
	}
	if p.ReadErrAt >= 0 && (l < 0 || p.ReadErrAt < l) {
		l = p.ReadErrAt
	}
	return l
}

func (p *Pipe) avail() int {
	n := len(p.buf)
	if l := p.limit(); l >= 0 {
		if rem := l - p.consumed; rem < int64(n) {
			if rem < 0 {
				rem = 0
			}
			n = int(rem)
		}
	}
	return n
}

func (p *Pipe) atFault() bool {
	l := p.limit()
	return l >= 0 && p.consumed >= l
}

func (p *Pipe) readReady() bool {
	if p.rclosed {
		return true
	}
	if p.Stalled {
		return false
	}
	return p.avail() > 0 || p.atFault() || (p.wclosed && len(p.buf) == 0)
}

// Read implements io.Reader for the consuming end.
func (p *Pipe) Read(b []byte) (int, error) {
	if len(b) > p.MaxReadBuf {
		p.MaxReadBuf = len(b)
	}
	if p.Obs != nil {
		p.Obs.ReadIssued(p, simrt.Current(), len(b))
	}
	if len(b) == 0 {
		return 0, nil
	}
	if simrt.Tracing() {
		simrt.Event("read %s: want %d buffered=%d consumed=%d written=%d eofAt=%d", p.Name, len(b), len(p.buf), p.consumed, p.written, p.ReadEOFAt)
	}
	simrt.Block("read "+p.Name, p.readReady)
	p.Reads++
	if p.rclosed {
		return 0, ErrClosed
	}
	n := p.avail()
	if n == 0 {
		if p.atFault() {
			if p.ReadErrAt >= 0 && p.consumed >= p.ReadErrAt {
				simrt.Fault("transport.read-error")
				return 0, ErrInjected
			}
			simrt.Fault("transport.cut")
			return 0, io.EOF
		}
		return 0, io.EOF // writer closed
	}
	if n > len(b) {
		n = len(b)
	}
	full := n
	switch p.Seg {
	case SegByte:
		n = 1
	case SegRandom:
		if n > 1 {
			// choice 0 = everything available
			n = n - simrt.Choose(n)
		}
	case SegPlan:
		for _, c := range p.Cuts {
			if c > p.consumed && c < p.consumed+int64(n) {
				n = int(c - p.consumed)
				break
			}
		}
	}
	if n < full {
		p.SplitReads++
	}
	copy(b, p.buf[:n])
	p.buf = p.buf[n:]
	p.consumed += int64(n)
	if p.Obs != nil {
		p.Obs.Consumed(p, simrt.Current(), n)
	}
	if p.EOFWithData && len(p.buf) == 0 && p.wclosed && !p.atFault() {
		return n, io.EOF
	}
	return n, nil
}

func (p *Pipe) writeReady() bool {
	return p.rclosed || p.wclosed || p.Cap == 0 || len(p.buf) < p.Cap
}

// Write implements io.Writer for the producing end.
func (p *Pipe) Write(b []byte) (int, error) {
	total := 0
	idx := p.nwrites
	p.nwrites++
	for {
		simrt.Block("write "+p.Name, p.writeReady)
		if p.wclosed {
			return total, ErrClosed
		}
		if p.rclosed {
			return total, ErrClosed
		}
		if p.WriteErrAfter >= 0 && idx >= p.WriteErrAfter {
			simrt.Fault("transport.write-error")
			p.WriteErrors++
			return total, ErrInjected
		}
		n := len(b)
		if p.Cap > 0 && n > p.Cap-len(p.buf) {
			n = p.Cap - len(p.buf)
		}
		p.Writes++
		if p.Obs != nil {
			p.Obs.Wrote(p, simrt.Current(), b[:n])
		}
		p.buf = append(p.buf, b[:n]...)
		p.written += int64(n)
		total += n
		b = b[n:]
		if len(b) == 0 {
			return total, nil
		}
	}
}

// CloseWrite ends the stream from the producing side (reader gets EOF after
// draining what was written).
func (p *Pipe) CloseWrite() { p.wclosed = true }

// CloseRead makes later reads and writes fail.
func (p *Pipe) CloseRead() { p.rclosed = true }

func (p *Pipe) WriteClosed() bool { return p.wclosed }
func (p *Pipe) ReadClosed() bool  { return p.rclosed }

// End is one endpoint of a duplex connection.
type End struct {
	In     *Pipe // we read from
	Out    *Pipe // we write to
	closed bool
	Closes int
}

func (e *End) Read(b []byte) (int, error)  { return e.In.Read(b) }
func (e *End) Write(b []byte) (int, error) { return e.Out.Write(b) }
func (e *End) Close() error {
	e.Closes++
	if e.closed {
		return nil
	}
	e.closed = true
	simrt.Yield("close " + e.In.Name)
	e.In.CloseRead()
	e.Out.CloseWrite()
	return nil
}
func (e *End) Closed() bool { return e.closed }

// Conn is a duplex connection: A is the client side, B the server side.
type Conn struct {
	A, B *End
	C2S  *Pipe // client -> server bytes
	S2C  *Pipe // server -> client bytes
}

func NewConn(name string) *Conn {
	c2s := NewPipe(name + ".c2s")
	s2c := NewPipe(name + ".s2c")
	return &Conn{
		A:   &End{In: s2c, Out: c2s},
		B:   &End{In: c2s, Out: s2c},
		C2S: c2s, S2C: s2c,
	}
}
