package simnet

import "unsafe"

func ptr(p *int) unsafe.Pointer { return unsafe.Pointer(p) }
