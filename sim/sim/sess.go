package sim

import (
	"strings"

	rc "github.com/hugelgupf/p9/zzverif/refcodec"
)

// WalkTo binds newfid to path (absolute, from the fid bound to the root).
func (c *SrvConn) WalkTo(root, newfid uint32, path string) bool {
	var names []string
	for _, n := range strings.Split(strings.Trim(path, "/"), "/") {
		if n != "" {
			names = append(names, n)
		}
	}
	rep := c.RPC(&rc.Twalk{Fid: root, NewFid: newfid, Names: names})
	_, ok := rep.(*rc.Rwalk)
	return ok
}

// Start negotiates and attaches fid 0 to the root.
func (c *SrvConn) Start(msize uint32, version string) bool {
	rv := c.Negotiate(msize, version)
	if rv == nil || rv.Msize == 0 {
		return false
	}
	_, ok := c.Attach(0, "").(*rc.Rattach)
	return ok
}

func versionStr(n int) string {
	if n == 0 {
		return "9P2000.L"
	}
	return "9P2000.L.Google." + itoa(n)
}

func itoa(n int) string {
	if n == 0 {
		return "0"
	}
	neg := n < 0
	if neg {
		n = -n
	}
	var b []byte
	for n > 0 {
		b = append([]byte{byte('0' + n%10)}, b...)
		n /= 10
	}
	if neg {
		b = append([]byte{'-'}, b...)
	}
	return string(b)
}
