package sim

import (
	"fmt"

	rc "github.com/hugelgupf/p9/zzverif/refcodec"
	"github.com/hugelgupf/p9/zzverif/simfs"
	"github.com/hugelgupf/p9/zzverif/simnet"
	"github.com/hugelgupf/p9/zzverif/simrt"
)

// Random concurrent E1 workload: several connections, several client threads
// per connection (each lock-step on its own fids, so one request outstanding
// per fid, but many per connection), a shared or partitioned tree.

type workloadOpts struct {
	Disjoint   bool // each thread confined to its own subtree (isolation runs)
	NoRename   bool
	Faults     bool // backend error/panic injection (C15)
	Cut        bool // cut a connection mid-session (C05)
	MaxThreads int
	MaxOps     int
	// Large: 4-8 connections with 2-8 threads each (up to 64 clients), few
	// requests per thread.
	Large bool
	Flush      bool
	// After is called in the controller after all threads finished, before shutdown.
	After func(w *World)
	// Record, if set, receives every (thread, request, reply).
	Record func(th int, req, rep rc.Message)
	// Solo: run only this thread (isolation reference run); -1 = all.
	Solo    int
	UseSolo bool
	ThreadSeed uint64 // isolation runs: seed of the per-thread private choice streams
	ErrOnly bool // injected faults are errors only, no panics
	Xattr   bool // include xattr sub-protocol requests
	// BadFrames: now and then a thread sends a well-delimited frame the
	// server cannot decode (unknown type, body too short); the server owes it
	// an Rlerror, written like any other reply.
	BadFrames bool
}

// badFrame builds a well-delimited undecodable frame.
func badFrame(tag uint16, kind int) []byte {
	var typ byte
	var body []byte
	switch kind % 4 {
	case 0:
		typ = 3 // not a 9P2000.L message type
	case 1:
		typ, body = 211, []byte{1, 2, 3, 4, 5} // unknown type with a body
	case 2:
		typ, body = rc.TypeTwalk, []byte{1, 0} // body shorter than the fixed part
	case 3:
		typ, body = rc.TypeTwrite, []byte{1, 0, 0, 0, 9} // payload type, short body
	}
	n := 7 + len(body)
	b := []byte{byte(n), byte(n >> 8), 0, 0, typ, byte(tag), byte(tag >> 8)}
	return append(b, body...)
}

type fidState struct {
	bound  bool
	kind   int // simfs.Kind or -1 unknown
	opened bool
	depth  int
}

type thread struct {
	id    int
	conn  *SrvConn
	base  uint32
	fids  [6]fidState
	home  string
	nops  int
	done  bool
	names []string
	rng   *simrt.Tape // private choice stream (isolation runs), else nil
	// lastTag: tag of this thread's previous request once it was answered
	lastTag uint16
}

var wlNames = []string{"a", "b", "c", "d"}

const (
	kindXattr  = -3
	kindXattrW = -4
)

func (t *thread) fid(i int) uint32 { return t.base + uint32(i) }

// genOp draws the next request of a thread from the tape.
func (t *thread) genOp(o workloadOpts) (rc.Message, func(rep rc.Message)) {
	ch := simrt.Choose
	if t.rng != nil {
		ch = t.rng.Choose
	}
	i := ch(len(t.fids))
	f := &t.fids[i]
	fid := t.fid(i)
	name := t.names[ch(len(t.names))]
	if !f.bound {
		// bind it: walk from root (fid 0 of this thread) or clone another fid
		j := ch(len(t.fids))
		if t.fids[j].bound && ch(3) == 0 {
			return &rc.Twalk{Fid: t.fid(j), NewFid: fid}, func(rep rc.Message) {
				if _, ok := rep.(*rc.Rwalk); ok {
					*f = t.fids[j]
					f.opened = false
				}
			}
		}
		var names []string
		for d := ch(3); d >= 0; d-- {
			names = append(names, t.names[ch(len(t.names))])
		}
		if ch(4) == 0 {
			names = nil
		}
		return &rc.Twalk{Fid: t.base + 9, NewFid: fid, Names: names}, func(rep rc.Message) {
			if r, ok := rep.(*rc.Rwalk); ok {
				f.bound, f.opened, f.depth = true, false, len(names)
				f.kind = int(simfs.Dir)
				if len(r.QIDs) > 0 {
					q := r.QIDs[len(r.QIDs)-1]
					switch {
					case q.Type&rc.QTDir != 0:
						f.kind = int(simfs.Dir)
					case q.Type&rc.QTSymlink != 0:
						f.kind = int(simfs.Symlink)
					default:
						f.kind = int(simfs.Reg)
					}
				}
			}
		}
	}
	unbind := func(rc.Message) { *f = fidState{} }
	isDir := f.kind == int(simfs.Dir)
	if f.kind == kindXattrW {
		if ch(2) == 0 {
			return &rc.Twrite{Fid: fid, Offset: 0, Data: []byte("ab")[:ch(3)]}, nil
		}
		return &rc.Tclunk{Fid: fid}, unbind
	}
	// weights
	type cand struct {
		w int
		f func() (rc.Message, func(rc.Message))
	}
	var cs []cand
	add := func(w int, fn func() (rc.Message, func(rc.Message))) { cs = append(cs, cand{w, fn}) }
	if f.kind == kindXattr {
		// xattr fid: read it or clunk it
		if ch(2) == 0 {
			return &rc.Tread{Fid: fid, Offset: 0, Count: uint32(ch(8))}, nil
		}
		return &rc.Tclunk{Fid: fid}, unbind
	}
	add(3, func() (rc.Message, func(rc.Message)) { return &rc.Tgetattr{Fid: fid, Mask: rc.GetattrAll}, nil })
	add(2, func() (rc.Message, func(rc.Message)) { return &rc.Tclunk{Fid: fid}, unbind })
	if o.Xattr {
		add(2, func() (rc.Message, func(rc.Message)) {
			j := ch(len(t.fids))
			nf := t.fid(j)
			nm := []string{"user.x", "", "user.none"}[ch(3)]
			return &rc.Txattrwalk{Fid: fid, NewFid: nf, Name: nm}, func(rep rc.Message) {
				if _, ok := rep.(*rc.Rxattrwalk); ok {
					t.fids[j] = fidState{bound: true, kind: kindXattr}
				}
			}
		})
		if !f.opened {
			add(1, func() (rc.Message, func(rc.Message)) {
				return &rc.Txattrcreate{Fid: fid, Name: "user.w", AttrSize: uint64(ch(3)), Flags: 0}, func(rep rc.Message) {
					if _, ok := rep.(*rc.Rxattrcreate); ok {
						f.kind, f.opened = kindXattrW, true
					}
				}
			})
		}
	}
	add(1, func() (rc.Message, func(rc.Message)) {
		return &rc.Tsetattr{Fid: fid, Valid: rc.SetattrMode, Mode: uint32(0o600 + ch(64))}, nil
	})
	add(1, func() (rc.Message, func(rc.Message)) { return &rc.Tstatfs{Fid: fid}, nil })
	if f.depth > 0 {
		add(1, func() (rc.Message, func(rc.Message)) { return &rc.Tremove{Fid: fid}, unbind })
	}
	if !f.opened {
		add(3, func() (rc.Message, func(rc.Message)) {
			fl := uint32(ch(3))
			if isDir {
				fl = 0
			}
			return &rc.Tlopen{Fid: fid, Flags: fl}, func(rep rc.Message) {
				if _, ok := rep.(*rc.Rlopen); ok {
					f.opened = true
				}
			}
		})
	} else if isDir {
		add(3, func() (rc.Message, func(rc.Message)) {
			return &rc.Treaddir{Fid: fid, Offset: uint64(ch(3)), Count: uint32(64 + ch(4)*200)}, nil
		})
	} else {
		add(3, func() (rc.Message, func(rc.Message)) {
			return &rc.Tread{Fid: fid, Offset: uint64(ch(40)), Count: uint32(ch(64))}, nil
		})
		add(3, func() (rc.Message, func(rc.Message)) {
			d := make([]byte, 1+ch(24))
			for k := range d {
				d[k] = byte('A' + t.id)
			}
			return &rc.Twrite{Fid: fid, Offset: uint64(ch(40)), Data: d}, nil
		})
		add(1, func() (rc.Message, func(rc.Message)) { return &rc.Tfsync{Fid: fid}, nil })
	}
	if isDir && !f.opened {
		add(3, func() (rc.Message, func(rc.Message)) {
			return &rc.Tlcreate{Fid: fid, Name: name, Flags: 2, Mode: 0o644}, func(rep rc.Message) {
				if _, ok := rep.(*rc.Rlcreate); ok {
					f.kind, f.opened, f.depth = int(simfs.Reg), true, f.depth+1
				}
			}
		})
		add(3, func() (rc.Message, func(rc.Message)) { return &rc.Tmkdir{Dfid: fid, Name: name, Mode: 0o755}, nil })
		add(1, func() (rc.Message, func(rc.Message)) {
			return &rc.Tsymlink{Dfid: fid, Name: name, Target: "t"}, nil
		})
		add(1, func() (rc.Message, func(rc.Message)) {
			return &rc.Tmknod{Dfid: fid, Name: name, Mode: rc.SIfifo | 0o600}, nil
		})
		add(3, func() (rc.Message, func(rc.Message)) { return &rc.Tunlinkat{DirFid: fid, Name: name}, nil })
		// walk in place to a child
		add(2, func() (rc.Message, func(rc.Message)) {
			return &rc.Twalk{Fid: fid, NewFid: fid, Names: []string{name}}, func(rep rc.Message) {
				if r, ok := rep.(*rc.Rwalk); ok && len(r.QIDs) == 1 {
					f.depth++
					if r.QIDs[0].Type&rc.QTDir == 0 {
						f.kind = int(simfs.Reg)
						if r.QIDs[0].Type&rc.QTSymlink != 0 {
							f.kind = int(simfs.Symlink)
						}
					}
				}
			}
		})
		if !o.NoRename {
			add(3, func() (rc.Message, func(rc.Message)) {
				j := ch(len(t.fids))
				dst := t.fid(j)
				if !t.fids[j].bound || t.fids[j].kind != int(simfs.Dir) {
					dst = fid
				}
				return &rc.Trenameat{OldDirFid: fid, OldName: name, NewDirFid: dst, NewName: t.names[ch(len(t.names))]}, nil
			})
		}
	}
	if !o.NoRename && f.depth > 0 {
		add(2, func() (rc.Message, func(rc.Message)) {
			j := ch(len(t.fids))
			dst := t.fid(j)
			if !t.fids[j].bound || t.fids[j].kind != int(simfs.Dir) {
				dst = t.base + 9
			}
			return &rc.Trename{Fid: fid, Dfid: dst, Name: t.names[ch(len(t.names))]}, nil
		})
	}
	if f.kind == int(simfs.Symlink) {
		add(3, func() (rc.Message, func(rc.Message)) { return &rc.Treadlink{Fid: fid}, nil })
	}
	if f.kind != int(simfs.Dir) && ch(4) == 0 {
		add(1, func() (rc.Message, func(rc.Message)) {
			j := ch(len(t.fids))
			return &rc.Tlink{Dfid: t.base + 9, Fid: fid, Name: t.names[ch(len(t.names))] + itoa(j)}, nil
		})
	}
	tot := 0
	for _, c := range cs {
		tot += c.w
	}
	k := ch(tot)
	for _, c := range cs {
		if k < c.w {
			return c.f()
		}
		k -= c.w
	}
	return cs[0].f()
}

func buildWorkloadTree(fs *simfs.FS, threads int, disjoint bool) {
	mk := func(root string) {
		fs.MkPath(root + "/a/")
		fs.MkPath(root + "/a/a")
		fs.MkPath(root + "/a/b/")
		fs.MkPath(root + "/a/b/c")
		fs.MkPath(root + "/b")
		fs.MkPath(root + "/c->a")
		fs.MkPath(root + "/d/")
		fs.MkPath(root + "/d/a/")
		fs.MkPath(root + "/d/b")
	}
	if !disjoint {
		mk("")
		return
	}
	for t := 0; t < threads; t++ {
		mk(fmt.Sprintf("/home%d", t))
	}
}

func runRandomWorkload(rcx *RunCtx, o workloadOpts) {
	cfg := simCfg(rcx)
	p := rcx.Plan
	nconn := 1 + p.Choose(3)
	maxT := o.MaxThreads
	if maxT == 0 {
		maxT = 4
	}
	perConn := 1 + p.Choose(maxT)
	maxOps := o.MaxOps
	if maxOps == 0 {
		maxOps = 24
	}
	nops := 4 + p.Choose(maxOps)
	if o.Large {
		nconn = 4 + p.Choose(5)
		perConn = 2 + p.Choose(7)
		nops = 3 + p.Choose(8)
		cfg.MaxSteps = 2000000
	}
	wgaENOSYS := p.Choose(2) == 1
	ver := 7 - p.Choose(8)
	capS2C := []int{0, 0, 0, 64, 256}[p.Choose(5)]
	seg := []int{simnet.SegWhole, simnet.SegWhole, simnet.SegRandom, simnet.SegByte}[p.Choose(4)]
	faultPct := 0
	if o.Faults {
		faultPct = 1 + p.Choose(6)
	}
	nthreads := nconn * perConn
	rcx.Label = fmt.Sprintf("random conns=%d threads=%d", nconn, nthreads)
	rcx.Sample = map[string]interface{}{"connections": nconn, "threads": nthreads, "ops_per_thread": nops, "version": ver, "walkgetattr_enosys": wgaENOSYS, "reply_pipe_cap": capS2C, "segmentation": seg, "disjoint": o.Disjoint}
	var w *World
	maxActive := 0
	cutDone := false
	rcx.Res = simrt.Run(cfg, rcx.Sched, func() {
		fs := simfs.New()
		fs.WalkGetAttrENOSYS = wgaENOSYS
		fs.KeepCalls = false
		buildWorkloadTree(fs, nthreads, o.Disjoint)
		if o.Xattr {
			for _, p := range []string{"/b", "/a", "/a/a", "/d/b"} {
				if n := fs.Lookup(p); n != nil {
					n.SetXattrDirect("user.x", []byte("xv"))
				}
			}
		}
		fs.OnEnter = func(c *simfs.Call) {
			if n := len(fs.ActiveCalls()); n > maxActive {
				maxActive = n
			}
		}
		faultsOn := false
		if faultPct > 0 {
			fs.FaultFn = func(c *simfs.Call) *simfs.Fault {
				if !faultsOn {
					return nil
				}
				if c.Method == "Close" || c.Method == "Renamed" || c.Method == "Attach" {
					return nil
				}
				if simrt.Pct(faultPct) {
					if !o.ErrOnly && simrt.Choose(4) == 0 {
						return &simfs.Fault{Panic: "injected backend panic in " + c.Method}
					}
					return &simfs.Fault{Err: injectedErrs[simrt.Choose(len(injectedErrs))]}
				}
				return nil
			}
		}
		w = NewWorld(nil, fs)
		var threads []*thread
		for ci := 0; ci < nconn; ci++ {
			c := w.Connect()
			c.Net.C2S.Seg = seg
			c.Net.S2C.Cap = capS2C
			if capS2C > 0 {
				// a reader that drains replies so the server is never stuck for good
				simrt.GoNamed(fmt.Sprintf("drain%d", ci), func() {
					simrt.Current().Role = "peer"
					buf := make([]byte, 97)
					for {
						if _, err := c.Net.A.Read(buf); err != nil {
							return
						}
					}
				})
			}
			if !c.Start(8192, versionStr(ver)) {
				rcx.Find(rcx.Prop, "setup", "start", "could not negotiate/attach")
				return
			}
			for ti := 0; ti < perConn; ti++ {
				th := &thread{id: len(threads), conn: c, base: uint32(100 * (ti + 1)), nops: nops, names: wlNames}
				if o.Disjoint {
					th.rng = simrt.NewTape(o.ThreadSeed + uint64(th.id)*7919)
				}
				threads = append(threads, th)
			}
		}
		// every thread gets its own root fid (base+9)
		for _, th := range threads {
			home := ""
			if o.Disjoint {
				home = fmt.Sprintf("home%d", th.id)
			}
			if !th.conn.WalkTo(0, th.base+9, home) {
				rcx.Find(rcx.Prop, "setup", "home", "could not bind thread root")
				return
			}
		}
		faultsOn = true
		for _, th := range threads {
			th := th
			if o.UseSolo && th.id != o.Solo {
				th.done = true
				continue
			}
			simrt.GoNamed(fmt.Sprintf("cli%d", th.id), func() {
				simrt.Current().Role = "peer"
				for k := 0; k < th.nops; k++ {
					m, upd := th.genOp(o)
					var req *FrameRec
					// adversarial tags: re-use the tag of the request that was
					// just answered, right away
					newTag := func() uint16 {
						if o.Flush && th.lastTag != 0 && simrt.Choose(2) == 0 {
							rcx.Count("tags.reused_immediately", 1)
							return th.lastTag
						}
						return th.conn.Tag()
					}
					if o.BadFrames && simrt.Choose(12) == 0 {
						// in place of the drawn request
						upd = nil
						nf := len(th.conn.Mon.Req.Frames)
						th.conn.SendRaw(badFrame(newTag(), simrt.Choose(4)))
						rcx.Count("undecodable_requests", 1)
						simrt.Fault("peer.undecodable-frame")
						if len(th.conn.Mon.Req.Frames) > nf {
							req = th.conn.Mon.Req.Frames[len(th.conn.Mon.Req.Frames)-1]
						}
					} else if o.Flush && simrt.Choose(10) == 0 {
						// a Tflush in place of the drawn request: of a request of
						// another thread that is in flight right now, of an
						// answered tag, of an idle tag, or of its own tag
						upd = nil
						tag := newTag()
						old := uint16(40000 + simrt.Choose(100)) // idle
						switch simrt.Choose(4) {
						case 0, 1:
							fr := th.conn.Mon.Req.Frames
							for k := len(fr) - 1; k >= 0 && k >= len(fr)-12; k-- {
								if fr[k].Reply == nil && !fr[k].TagBusy && fr[k].Class == rc.Exact {
									old = fr[k].Tag
									rcx.Count("flush.of_request_in_flight", 1)
									break
								}
							}
						case 2:
							if n := len(th.conn.Mon.Req.Frames); n > 0 {
								old = th.conn.Mon.Req.Frames[simrt.Choose(n)].Tag
							}
						case 3:
							old = tag
						}
						rcx.Count("flush.sent", 1)
						req = th.conn.Send(tag, &rc.Tflush{OldTag: old})
					} else {
						req = th.conn.Send(newTag(), m)
					}
					if req == nil {
						break
					}
					simrt.Block("await reply", func() bool { return req.Reply != nil || th.conn.closed })
					if req.Reply == nil {
						break
					}
					th.lastTag = req.Tag
					if upd != nil {
						upd(req.Reply.Msg)
					}
					if o.Record != nil {
						o.Record(th.id, m, req.Reply.Msg)
					}
				}
				th.done = true
			})
		}
		if o.Cut {
			victim := w.Conns[simrt.Choose(len(w.Conns))]
			after := simrt.Choose(nops*perConn + 1)
			delta := simrt.Choose(40)
			deadRx := simrt.Choose(2) == 1
			nhold := simrt.Choose(3)
			var parked []*simfs.Call
			nparked := 0
			simrt.GoNamed("cutter", func() {
				simrt.Current().Role = "peer"
				base := len(victim.Mon.Req.Frames)
				simrt.Block("cut point", func() bool { return len(victim.Mon.Req.Frames) >= base+after || allDone(threads) })
				if nhold > 0 {
					fs.Hold = func(c *simfs.Call) bool {
						if nparked < nhold && c.Method != "Renamed" {
							nparked++
							parked = append(parked, c)
							return true
						}
						return false
					}
				}
				// threads of the victim stop after the request they are waiting for
				victim.closed = true
				// one last request, of which only a prefix (possibly empty,
				// possibly all of it) arrives before the stream ends
				final := rc.Encode(victim.Tag(), &rc.Twalk{Fid: 0, NewFid: 77, Names: []string{"a", "b"}})
				victim.Net.C2S.ReadEOFAt = victim.Net.C2S.Written() + int64(delta%(len(final)+1))
				if deadRx {
					victim.Net.S2C.CloseRead()
				}
				simrt.Fault("transport.cut-planned")
				victim.SendRaw(final)
				victim.Net.C2S.CloseWrite()
				simrt.WaitQuiescent()
				fs.Hold = nil
				for len(parked) > 0 {
					i := simrt.Choose(len(parked))
					parked[i].Release()
					parked = append(parked[:i], parked[i+1:]...)
					simrt.WaitQuiescent()
				}
				cutDone = true
			})
		} else {
			cutDone = true
		}
		simrt.Block("threads done", func() bool {
			if !cutDone {
				return false
			}
			for _, th := range threads {
				if !th.done {
					return false
				}
			}
			return true
		})
		if o.After != nil {
			o.After(w)
		}
		// every request must have been answered
		for _, c := range w.Conns {
			if c.closed {
				continue // cut on purpose
			}
			for _, r := range c.Mon.Unanswered() {
				rcx.Find("C06", "no-reply", rc.TypeName(r.Type), "%s: request %s was never answered", c.Mon.Name, r)
			}
		}
		w.Shutdown()
		rcx.Findings = append(rcx.Findings, w.Findings...)
		rcx.Count("requests", countReqs(w))
		rcx.Count("backend.calls", fs.NCalls)
	})
	if maxActive < 2 {
		rcx.Trivial = true
	} else {
		rcx.Count("runs_with_concurrent_backend_calls", 1)
		if maxActive >= 3 {
			rcx.Count("runs_with_3_or_more_backend_calls_in_flight", 1)
		}
		if maxActive >= 5 {
			rcx.Count("runs_with_5_or_more_backend_calls_in_flight", 1)
		}
	}
	finishRun(rcx)
}

func countReqs(w *World) int {
	n := 0
	for _, c := range w.Conns {
		n += len(c.Mon.Req.Frames)
	}
	return n
}

func allDone(ths []*thread) bool {
	for _, th := range ths {
		if !th.done {
			return false
		}
	}
	return true
}
