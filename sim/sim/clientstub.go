package sim

// placeholders until the fake-server engines exist
func runC12ClientImpl(rcx *RunCtx) { rcx.Trivial = true; rcx.Res = nil; runC12Server(rcx) }
func runC13ClientImpl(rcx *RunCtx) { rcx.Trivial = true; rcx.Res = nil; runC13Server(rcx) }
func runC12Server(rcx *RunCtx)     { rcx.Index = c12Cases() + 2*rcx.Index; runC12(rcx) }
func runC13Server(rcx *RunCtx)     { rcx.Index = c13Cases() + 2*rcx.Index; runC13(rcx) }

func runC02Client(rcx *RunCtx) { rcx.Index = rcx.Index*4 + 1; runC02(rcx) }

func runC17Client(rcx *RunCtx) { rcx.Index = rcx.Index*5 + 1; runC17(rcx) }

func runC18Client(rcx *RunCtx) { rcx.Index = rcx.Index*4 + 1; runC18(rcx) }
