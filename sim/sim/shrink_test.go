package sim

import "testing"

// The shrinker must keep the failure, never grow the tape, and reach the
// obvious minimum on easy predicates.
func TestShrinkTape(t *testing.T) {
	// fails iff some value >= 5 is followed (anywhere later) by a value >= 3
	pred := func(x []uint32) bool {
		for i, v := range x {
			if v >= 5 {
				for _, w := range x[i+1:] {
					if w >= 3 {
						return true
					}
				}
			}
		}
		return false
	}
	in := []uint32{1, 0, 9, 2, 2, 0, 0, 7, 1, 4, 0, 8, 3, 0, 0, 1}
	if !pred(in) {
		t.Fatal("bad test input")
	}
	budget := 3000
	out := shrinkTape(in, pred, &budget)
	if !pred(out) {
		t.Fatalf("shrunk tape %v no longer fails", out)
	}
	if len(out) != 2 || out[0] != 5 || out[1] != 3 {
		t.Fatalf("shrunk to %v, want [5 3]", out)
	}
	// a predicate that holds for everything shrinks to nothing
	budget = 3000
	if out := shrinkTape(in, func([]uint32) bool { return true }, &budget); len(out) != 0 {
		t.Fatalf("always-failing predicate shrunk to %v", out)
	}
	// no budget: unchanged (minus implicit trailing zeros)
	budget = 0
	if out := shrinkTape([]uint32{3, 0, 0}, pred, &budget); len(out) != 1 || out[0] != 3 {
		t.Fatalf("zero budget gave %v", out)
	}
}
