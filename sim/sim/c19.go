package sim

import (
	"github.com/hugelgupf/p9/linux"
	"fmt"
	"os"
	"path/filepath"
	"sort"
	"strings"

	"github.com/hugelgupf/p9/fsimpl/composefs"
	"github.com/hugelgupf/p9/fsimpl/localfs"
	"github.com/hugelgupf/p9/fsimpl/staticfs"
	"github.com/hugelgupf/p9/p9"
	"github.com/hugelgupf/p9/zzverif/simnet"
	"github.com/hugelgupf/p9/zzverif/simrt"
)

// C19 — directory listing: every entry exactly once, QIDs agree with
// Walk/GetAttr.  State carried between calls (offset cookie, directory
// position), so a sequence check against ground truth; there is no schedule
// dimension in the statement — said plainly.  The real localfs (on a
// temporary directory), staticfs and composefs run under the real server and
// client (engine E3), and the same paging loop runs directly on the File.

var c19Sizes = []int{0, 1, 2, 3, 10, 100, 1000}

func c19Names(ch func(int) int, n int) []string {
	seen := map[string]bool{}
	var out []string
	for len(out) < n {
		l := 1 + ch(12)
		switch ch(10) {
		case 0:
			l = 255
		case 1:
			l = 100 + ch(155)
		}
		b := make([]byte, l)
		for i := range b {
			b[i] = "abcdefghijklmnopqrstuvwxyz0123456789_-.+"[ch(40)]
		}
		s := fmt.Sprintf("%s%d", string(b), len(out))
		if len(s) > 255 {
			s = s[len(s)-255:]
		}
		if s == "." || s == ".." || seen[s] {
			continue
		}
		seen[s] = true
		out = append(out, s)
	}
	return out
}

// pageThrough lists a directory by repeated Readdir calls.
// A mount whose root fails GetAttr a given number of times (EIO), then works.
type flakyAtt struct {
	p9.Attacher
	n *int
}

func (a flakyAtt) Attach() (p9.File, error) {
	f, err := a.Attacher.Attach()
	if err != nil {
		return nil, err
	}
	return &flakyFile{File: f, n: a.n}, nil
}

type flakyFile struct {
	p9.File
	n *int
}

func (f *flakyFile) GetAttr(m p9.AttrMask) (p9.QID, p9.AttrMask, p9.Attr, error) {
	if *f.n > 0 {
		*f.n--
		simrt.Fault("backend.error")
		return p9.QID{}, p9.AttrMask{}, p9.Attr{}, linux.EIO
	}
	return f.File.GetAttr(m)
}

// pageThrough lists d page by page.  tolerate: number of failed Readdir calls
// that are simply repeated (transient backend errors injected by the caller).
func pageThrough(d p9.File, count uint32, limit int, tolerate int, afterFirst ...func(p9.Dirents)) (p9.Dirents, int, string) {
	var all p9.Dirents
	off := uint64(0)
	calls := 0
	hooked := false
	for {
		if len(all) > 0 && !hooked && len(afterFirst) > 0 {
			hooked = true
			afterFirst[0](all)
		}
		calls++
		if calls > limit {
			return all, calls, fmt.Sprintf("the paging loop did not terminate after %d calls (%d entries so far)", calls, len(all))
		}
		ents, err := d.Readdir(off, count)
		if err != nil && tolerate > 0 {
			tolerate--
			limit++
			continue
		}
		if err != nil {
			return all, calls, fmt.Sprintf("Readdir(%d, %d) failed: %v", off, count, err)
		}
		if len(ents) == 0 {
			return all, calls, ""
		}
		all = append(all, ents...)
		off = ents[len(ents)-1].Offset
	}
}

func runC19(rcx *RunCtx) {
	cfg := simCfg(rcx)
	p := rcx.Plan
	backend := rcx.Index % 5
	n := c19Sizes[p.Choose(len(c19Sizes))]
	if rcx.Tier == "thorough" && p.Choose(40) == 0 {
		n = 5000
	}
	if backend != 0 && backend != 4 && n > 300 {
		n = 300
	}
	msize := []uint32{4096, 8192, 65536}[p.Choose(3)]
	names := c19Names(p.Choose, n)
	maxName := 1
	for _, s := range names {
		if len(s) > maxName {
			maxName = len(s)
		}
	}
	if (backend == 2 || backend == 3) && maxName < 9 {
		maxName = 9 // the mount points zz-static / zz-local are entries too
	}
	one := uint32(24 + maxName) // one entry certainly fits
	count := []uint32{one, one + 1, one * 2, one*3 + 7, 512, 4000, msize - 24, msize, msize * 2, 1 << 20}[p.Choose(10)]
	if count < one {
		count = one
	}
	direct := backend == 4
	bname := []string{"localfs", "staticfs", "composefs-flat", "composefs-nested", "localfs-direct"}[backend]
	rcx.Label = bname
	rcx.Sample = map[string]interface{}{"backend": bname, "entries": n, "count": count, "msize": msize, "longest_name": maxName, "via": map[bool]string{true: "File directly", false: "client+server"}[direct]}
	var tmp string
	defer func() {
		if tmp != "" {
			os.RemoveAll(tmp)
			os.RemoveAll(tmp + ".old")
		}
	}()
	flaky, flakyArm := 0, 0
	replaceMounted := false
	pages := 0
	rcx.Res = simrt.Run(cfg, rcx.Sched, func() {
		find := func(oracle, key, format string, args ...interface{}) {
			rcx.Find("C19", oracle, bname+"/"+key, format, args...)
		}
		var att p9.Attacher
		truth := map[string]bool{}
		listPath := "" // path from the attach point to the directory to list
		mkLocal := func(ns []string) string {
			d, err := os.MkdirTemp("", "p9verif-c19-")
			if err != nil {
				panic(err)
			}
			for i, s := range ns {
				full := filepath.Join(d, s)
				switch i % 5 {
				case 1:
					os.Mkdir(full, 0o755)
				case 2:
					os.Symlink("target", full)
				default:
					os.WriteFile(full, []byte(s), 0o644)
				}
			}
			return d
		}
		switch backend {
		case 0, 4:
			tmp = mkLocal(names)
			att = localfs.Attacher(tmp)
			for _, s := range names {
				truth[s] = true
			}
		case 1:
			var opts []staticfs.Option
			for _, s := range names {
				opts = append(opts, staticfs.WithFile(s, "content "+s))
				truth[s] = true
			}
			a, err := staticfs.New(opts...)
			if err != nil {
				find("setup", "staticfs", "%v", err)
				return
			}
			att = a
		case 2, 3:
			// a composed root: files, a static mount, a local mount; nested: the same below "sub"
			half := len(names) / 2
			tmp = mkLocal(names[:half])
			var inner []composefs.Opt
			for _, s := range names[half:] {
				inner = append(inner, composefs.WithFile(s, staticfs.ReadOnlyFile("c "+s)))
				truth[s] = true
			}
			st, _ := staticfs.New(staticfs.WithFile("inside", "x"))
			st2, _ := staticfs.New(staticfs.WithFile("inside2", "y"))
			inner = append(inner, composefs.WithMount("zz-static", st), composefs.WithMount("zz-local", localfs.Attacher(tmp)),
				composefs.WithMount("zz-flaky", flakyAtt{Attacher: st2, n: &flaky}))
			truth["zz-static"], truth["zz-local"], truth["zz-flaky"] = true, true, true
			replaceMounted = simrt.Choose(2) == 1
			flakyArm = simrt.Choose(3)
			var fs *composefs.FS
			var err error
			if backend == 2 {
				fs, err = composefs.New(inner...)
			} else {
				fs, err = composefs.New(composefs.WithDir("sub", inner...), composefs.WithFile("top", staticfs.ReadOnlyFile("t")))
				listPath = "sub"
			}
			if err != nil {
				find("setup", "composefs", "%v", err)
				return
			}
			att = fs
		}
		var root p9.File
		var e *E3
		if direct {
			r, err := att.Attach()
			if err != nil {
				find("setup", "attach", "%v", err)
				return
			}
			root = r
		} else {
			var err error
			e, err = NewE3(att, nil, 7-simrt.Choose(8), msize, []int{simnet.SegWhole, simnet.SegRandom}[simrt.Choose(2)])
			if err != nil {
				find("setup", "newclient", "%v", err)
				e.Shutdown()
				return
			}
			root, err = e.Client.Attach("")
			if err != nil {
				find("setup", "attach", "%v", err)
				e.Shutdown()
				return
			}
			e.Hold(root)
		}
		var walkNames []string
		if listPath != "" {
			walkNames = []string{listPath}
		}
		_, dir, err := root.Walk(walkNames)
		if err == nil && len(walkNames) > 0 {
			// Walk returned the directory itself; open a clone of it
			var d2 p9.File
			_, d2, err = dir.Walk(nil)
			if e != nil {
				e.Hold(dir)
			}
			dir = d2
		}
		if err != nil {
			find("setup", "walk", "%v", err)
			if e != nil {
				e.Shutdown()
			}
			return
		}
		if e != nil {
			e.Hold(dir)
		}
		if _, _, err := dir.Open(p9.ReadOnly); err != nil {
			find("setup", "open", "opening the directory failed: %v", err)
			if e != nil {
				e.Shutdown()
			}
			return
		}
		if replaceMounted {
			// the directory behind the local mount is replaced by a new one
			// of the same name: what the listing says about "zz-local" must
			// be what Walk and GetAttr say, now
			os.Rename(tmp, tmp+".old")
			os.Mkdir(tmp, 0o755)
			os.WriteFile(filepath.Join(tmp, "new"), []byte("n"), 0o644)
			rcx.Count("mounted_directory_replaced", 1)
			simrt.Fault("disk.mounted-directory-replaced")
		}
		// transient errors of one mount's GetAttr while listing: a failed
		// Readdir call is repeated, a successful one must be right
		flaky = flakyArm
		// localfs: entries the listing has not reached yet are unlinked after
		// the first page.  A call that trips over a vanished entry may fail
		// (and is repeated); the files that stay are each listed once.
		removed := map[string]bool{}
		tol := flakyArm
		var hook []func(p9.Dirents)
		if (backend == 0 || backend == 4) && n >= 10 && simrt.Choose(3) == 0 {
			tol = 4
			hook = append(hook, func(seen p9.Dirents) {
				have := map[string]bool{}
				for _, d := range seen {
					have[d.Name] = true
				}
				k := 0
				for _, s := range names {
					if !have[s] {
						if k++; k%3 == 0 {
							os.RemoveAll(filepath.Join(tmp, s))
							removed[s] = true
						}
					}
				}
				rcx.Count("entries_unlinked_during_listing", len(removed))
				simrt.Fault("disk.entries-unlinked-during-listing")
			})
		}
		all, ncalls, problem := pageThrough(dir, count, len(truth)+12, tol, hook...)
		flaky = 0
		for s := range removed {
			delete(truth, s) // may or may not be listed (at most once, checked below)
		}
		pages = ncalls
		if problem != "" {
			find("paging", "loop", "%s listing %d entries with count %d: %s", bname, len(truth), count, problem)
		}
		got := map[string]int{}
		for _, d := range all {
			got[d.Name]++
		}
		var missing, dup, extra []string
		for s := range truth {
			if got[s] == 0 {
				missing = append(missing, s)
			}
		}
		for s, k := range got {
			if k > 1 {
				dup = append(dup, s)
			}
			if !truth[s] && !removed[s] {
				extra = append(extra, s)
			}
		}
		sort.Strings(missing)
		sort.Strings(dup)
		sort.Strings(extra)
		if problem == "" && (len(missing) > 0 || len(dup) > 0 || len(extra) > 0) {
			short := func(l []string) string {
				if len(l) > 3 {
					return fmt.Sprintf("%d entries, e.g. %q", len(l), l[:3])
				}
				return fmt.Sprintf("%q", l)
			}
			find("listing-wrong", "names", "%s, %d entries, count %d, %d Readdir calls: missing %s, duplicated %s, unexpected %s", bname, len(truth), count, ncalls, short(missing), short(dup), short(extra))
		}
		// every listed entry's QID and type are what Walk + GetAttr report
		checked := 0
		for i, d := range all {
			if i%(1+len(all)/25) != 0 && len(all) > 40 {
				continue // sample large listings
			}
			if !truth[d.Name] {
				continue
			}
			qs, f, err := dir.Walk([]string{d.Name})
			if err != nil {
				// an opened directory cannot be walked from on the server side: use a fresh handle
				var fresh p9.File
				_, fresh, err = root.Walk(walkNames)
				if err == nil {
					if e != nil {
						e.Hold(fresh)
					}
					qs, f, err = fresh.Walk([]string{d.Name})
				}
			}
			if err != nil {
				find("entry-not-walkable", "walk", "listed entry %q cannot be walked to: %v", trunc(d.Name, 40), err)
				continue
			}
			if e != nil {
				e.Hold(f)
			}
			q, _, attr, err := f.GetAttr(p9.AttrMask{Mode: true, INo: true})
			if err != nil {
				find("entry-getattr", "getattr", "GetAttr on listed entry %q failed: %v", trunc(d.Name, 40), err)
				continue
			}
			checked++
			if len(qs) != 1 || qs[0] != d.QID || q != d.QID {
				find("qid-mismatch", "qid", "entry %q is listed with QID %v, Walk reports %v and GetAttr %v", trunc(d.Name, 40), d.QID, qs, q)
			}
			if d.Type != d.QID.Type || d.Type != attr.Mode.QIDType() {
				find("type-mismatch", "type", "entry %q is listed with type %v (QID type %v), its mode %o has QID type %v", trunc(d.Name, 40), d.Type, d.QID.Type, attr.Mode, attr.Mode.QIDType())
			}
			if direct {
				f.Close()
			}
		}
		// a mount listed from inside, twice: the second listing is as right
		// as the first (what a listing hands out is the caller's)
		if backend == 2 || backend == 3 {
			for round := 0; round < 2 && len(rcx.Findings) == 0; round++ {
				_, sd, err := root.Walk(append(append([]string{}, walkNames...), "zz-static"))
				if err != nil {
					find("setup", "walk-mount", "walking into the static mount failed: %v", err)
					break
				}
				if e != nil {
					e.Hold(sd)
				}
				_, sd2, err := sd.Walk(nil)
				if err != nil {
					find("setup", "clone-mount", "%v", err)
					break
				}
				if e != nil {
					e.Hold(sd2)
				}
				if _, _, err := sd2.Open(p9.ReadOnly); err != nil {
					find("setup", "open-mount", "opening the static mount failed: %v", err)
					break
				}
				ents, _, problem := pageThrough(sd2, 4000, 12, 0)
				if problem != "" || len(ents) != 1 || ents[0].Name != "inside" {
					find("listing-wrong", "mount", "%s: listing %d of the static mount: %v %s", bname, round+1, ents, problem)
					break
				}
				qs, f, err := sd.Walk([]string{"inside"})
				if err != nil {
					find("entry-not-walkable", "mount", "%v", err)
					break
				}
				if e != nil {
					e.Hold(f)
				}
				q, _, _, err := f.GetAttr(p9.AttrMask{Mode: true, INo: true})
				if err != nil || len(qs) != 1 || qs[0] != ents[0].QID || q != ents[0].QID {
					find("qid-mismatch", "mount", "%s: listing %d of the static mount gives %q QID %v, Walk reports %v and GetAttr %v (%v)", bname, round+1, ents[0].Name, ents[0].QID, qs, q, err)
				}
				rcx.Count("mount_listings", 1)
				if direct {
					f.Close()
					sd2.Close()
					sd.Close()
				}
			}
		}
		rcx.Count("entries_listed", len(all))
		rcx.Count("entries_cross_checked", checked)
		rcx.Count("readdir_calls", ncalls)
		if direct {
			dir.Close()
			root.Close()
		} else {
			for _, f := range e.Shutdown() {
				if f.Prop != "C05" || !strings.Contains(f.Oracle, "leak") {
					rcx.Findings = append(rcx.Findings, f)
				}
			}
		}
	})
	if pages > 2 {
		rcx.Count("multi_page_listings", 1)
	} else if n < 2 {
		rcx.Trivial = true
	}
	finishRun(rcx)
}

func init() {
	Register(&Engine{
		ID:   "C19",
		Desc: "directory listing: every entry exactly once over localfs/staticfs/composefs, QIDs agree with Walk/GetAttr",
		Run:  runC19,
		Quick: 12000, Thorough: 300000, QuickSecs: 60, ThorSecs: 1200,
		Rule:  "backends in rotation: localfs on a temporary directory (files, subdirectories, symlinks; in a third of the larger listings every third entry not yet listed is unlinked after the first page: failed calls are repeated, the files that stay are each listed once), staticfs, composefs flat (files + a static mount + a localfs mount whose directory is replaced by a new one of the same name before listing in half of the runs + a mount whose GetAttr fails 0-2 times during the listing, failed Readdir calls being repeated; the static mount also listed from inside, twice) and nested (the same below a WithDir mount), each through real client + real server, plus localfs directly on the File; directory sizes {0,1,2,3,10,100,1000} (5000 occasionally in thorough), name lengths 1..255, count in {one entry, +1, two entries, three+7, 512, 4000, msize-24, msize, 2*msize, 1 MiB}, msize {4096, 8192, 65536}, versions 0..7. Oracle: the paging loop 'offset := Offset of the last entry' terminates within n+8 calls and the multiset of names equals the ground truth (each exactly once); each (sampled, for large listings) entry's QID and type equal what Walk(name) and GetAttr on the result report. A sequence/state property, not a schedule property; the simulator supplies the real stack and determinism.",
		Assume: []string{"the temporary directory is not modified while it is listed"},
		Real:   []string{"fsimpl/localfs (real syscalls on a temp dir)", "fsimpl/staticfs", "fsimpl/composefs", "fsimpl/readdir", "fsimpl/qids", "p9.Server treaddir/rreaddir encode", "p9.Client"},
		Stub:   []string{"transport (simnet + relay)"},
	})
}
