package sim

import (
	"errors"
	"io"
	"os"
	"syscall"

	"github.com/hugelgupf/p9/linux"
	"github.com/hugelgupf/p9/p9"
	rc "github.com/hugelgupf/p9/zzverif/refcodec"
	"github.com/hugelgupf/p9/zzverif/simfs"
)

// Conversions between the p9 package's Go values (what the backend sees and
// returns) and refcodec's wire-level values.  Written from the protocol
// description: which AttrMask field is which bit etc.

func qidToRC(q p9.QID) rc.QID { return rc.QID{Type: uint8(q.Type), Version: q.Version, Path: q.Path} }

func qidsToRC(qs []p9.QID) []rc.QID {
	var out []rc.QID
	for _, q := range qs {
		out = append(out, qidToRC(q))
	}
	return out
}

func attrToRC(a p9.Attr) rc.Attr {
	return rc.Attr{Mode: uint32(a.Mode), UID: uint32(a.UID), GID: uint32(a.GID), NLink: uint64(a.NLink), RDev: uint64(a.RDev),
		Size: a.Size, BlockSize: a.BlockSize, Blocks: a.Blocks, ATimeSec: a.ATimeSeconds, ATimeNsec: a.ATimeNanoSeconds,
		MTimeSec: a.MTimeSeconds, MTimeNsec: a.MTimeNanoSeconds, CTimeSec: a.CTimeSeconds, CTimeNsec: a.CTimeNanoSeconds,
		BTimeSec: a.BTimeSeconds, BTimeNsec: a.BTimeNanoSeconds, Gen: a.Gen, DataVersion: a.DataVersion}
}

func maskToRC(m p9.AttrMask) uint64 {
	var v uint64
	set := func(b bool, bit uint64) {
		if b {
			v |= bit
		}
	}
	set(m.Mode, rc.GetattrMode)
	set(m.NLink, rc.GetattrNlink)
	set(m.UID, rc.GetattrUID)
	set(m.GID, rc.GetattrGID)
	set(m.RDev, rc.GetattrRdev)
	set(m.ATime, rc.GetattrAtime)
	set(m.MTime, rc.GetattrMtime)
	set(m.CTime, rc.GetattrCtime)
	set(m.INo, rc.GetattrIno)
	set(m.Size, rc.GetattrSize)
	set(m.Blocks, rc.GetattrBlocks)
	set(m.BTime, rc.GetattrBtime)
	set(m.Gen, rc.GetattrGen)
	set(m.DataVersion, rc.GetattrDataVersion)
	return v
}

func setMaskToRC(m p9.SetAttrMask) uint32 {
	var v uint32
	set := func(b bool, bit uint32) {
		if b {
			v |= bit
		}
	}
	set(m.Permissions, rc.SetattrMode)
	set(m.UID, rc.SetattrUID)
	set(m.GID, rc.SetattrGID)
	set(m.Size, rc.SetattrSize)
	set(m.ATime, rc.SetattrAtime)
	set(m.MTime, rc.SetattrMtime)
	set(m.CTime, rc.SetattrCtime)
	set(m.ATimeNotSystemTime, rc.SetattrAtimeSet)
	set(m.MTimeNotSystemTime, rc.SetattrMtimeSet)
	return v
}

func statToRC(s p9.FSStat) rc.Rstatfs {
	return rc.Rstatfs{Type: s.Type, Bsize: s.BlockSize, Blocks: s.Blocks, Bfree: s.BlocksFree, Bavail: s.BlocksAvailable, Files: s.Files, Ffree: s.FilesFree, Fsid: s.FSID, Namelen: s.NameLength}
}

func direntsToRC(ds p9.Dirents) []rc.Dirent {
	var out []rc.Dirent
	for _, d := range ds {
		out = append(out, rc.Dirent{QID: qidToRC(d.QID), Offset: d.Offset, Type: uint8(d.Type), Name: d.Name})
	}
	return out
}

// truncDirents keeps the whole entries that fit in count bytes.
func truncDirents(ds []rc.Dirent, count uint32) []rc.Dirent {
	var out []rc.Dirent
	used := 0
	for _, d := range ds {
		sz := rc.DirentSize(d.Name)
		if used+sz > int(count) {
			break
		}
		used += sz
		out = append(out, d)
	}
	return out
}

// errnoOf is the errno the statement of C03/C15 prescribes for an error a
// backend returned: the linux.Errno or syscall.Errno found in its chain, else
// the os.Err* mapping, else EIO.
func errnoOf(err error) uint32 {
	var le linux.Errno
	if errors.As(err, &le) {
		return uint32(le)
	}
	var se syscall.Errno
	if errors.As(err, &se) {
		return uint32(se)
	}
	switch {
	case errors.Is(err, os.ErrNotExist):
		return ENOENT
	case errors.Is(err, os.ErrExist):
		return EEXIST
	case errors.Is(err, os.ErrPermission):
		return EACCES
	case errors.Is(err, os.ErrInvalid):
		return EINVAL
	}
	return EIO
}

func isEOF(err error) bool { return errors.Is(err, io.EOF) }

// expectedReply builds, from the backend's call log for one request, the reply
// the server must send when every call succeeded.  ok=false means the request
// kind is not covered (the caller then only checks the reply type).
func expectedReply(req rc.Message, calls []*simfs.Call) (rc.Message, bool) {
	last := func(method string) *simfs.Call {
		for i := len(calls) - 1; i >= 0; i-- {
			if calls[i].Method == method {
				return calls[i]
			}
		}
		return nil
	}
	switch m := req.(type) {
	case *rc.Tgetattr:
		if c := last("GetAttr"); c != nil {
			return &rc.Rgetattr{Valid: maskToRC(c.RValid), QID: qidToRC(c.RQID), Attr: attrToRC(c.RAttr)}, true
		}
	case *rc.Tstatfs:
		if c := last("StatFS"); c != nil {
			r := statToRC(c.RStat)
			return &r, true
		}
	case *rc.Tlopen:
		if c := last("Open"); c != nil {
			return &rc.Rlopen{QID: qidToRC(c.RQID), Iounit: c.RIoUnit}, true
		}
	case *rc.Tlcreate:
		if c := last("Create"); c != nil {
			return &rc.Rlcreate{QID: qidToRC(c.RQID), Iounit: c.RIoUnit}, true
		}
	case *rc.Tucreate:
		if c := last("Create"); c != nil {
			return &rc.Rucreate{QID: qidToRC(c.RQID), Iounit: c.RIoUnit}, true
		}
	case *rc.Tmkdir:
		if c := last("Mkdir"); c != nil {
			return &rc.Rmkdir{QID: qidToRC(c.RQID)}, true
		}
	case *rc.Tumkdir:
		if c := last("Mkdir"); c != nil {
			return &rc.Rumkdir{QID: qidToRC(c.RQID)}, true
		}
	case *rc.Tsymlink:
		if c := last("Symlink"); c != nil {
			return &rc.Rsymlink{QID: qidToRC(c.RQID)}, true
		}
	case *rc.Tusymlink:
		if c := last("Symlink"); c != nil {
			return &rc.Rusymlink{QID: qidToRC(c.RQID)}, true
		}
	case *rc.Tmknod:
		if c := last("Mknod"); c != nil {
			return &rc.Rmknod{QID: qidToRC(c.RQID)}, true
		}
	case *rc.Tumknod:
		if c := last("Mknod"); c != nil {
			return &rc.Rumknod{QID: qidToRC(c.RQID)}, true
		}
	case *rc.Treadlink:
		if c := last("Readlink"); c != nil {
			return &rc.Rreadlink{Target: c.RStr}, true
		}
	case *rc.Tread:
		if c := last("ReadAt"); c != nil {
			return &rc.Rread{Data: append([]byte{}, c.RData...)}, true
		}
	case *rc.Twrite:
		if c := last("WriteAt"); c != nil {
			return &rc.Rwrite{Count: uint32(c.RN)}, true
		}
	case *rc.Treaddir:
		if c := last("Readdir"); c != nil {
			return &rc.Rreaddir{Data: rc.EncodeDirents(truncDirents(direntsToRC(c.RDir), m.Count))}, true
		}
	case *rc.Tlock:
		if c := last("Lock"); c != nil {
			return &rc.Rlock{Status: uint8(c.RLock)}, true
		}
	case *rc.Twalk:
		var qs []rc.QID
		for _, c := range calls {
			if (c.Method == "Walk" || c.Method == "WalkGetAttr") && len(c.Names) > 0 {
				qs = append(qs, qidsToRC(c.RQIDs)...)
			}
		}
		return &rc.Rwalk{QIDs: qs}, true
	case *rc.Twalkgetattr:
		var qs []rc.QID
		var attr *simfs.Call
		for _, c := range calls {
			if (c.Method == "Walk" || c.Method == "WalkGetAttr") && len(c.Names) > 0 {
				qs = append(qs, qidsToRC(c.RQIDs)...)
			}
			if c.Method == "WalkGetAttr" || c.Method == "GetAttr" {
				attr = c
			}
		}
		if attr != nil {
			return &rc.Rwalkgetattr{Valid: maskToRC(attr.RValid), Attr: attrToRC(attr.RAttr), QIDs: qs}, true
		}
	case *rc.Tfsync:
		return &rc.Rfsync{}, true
	case *rc.Tsetattr:
		return &rc.Rsetattr{}, true
	case *rc.Tunlinkat:
		return &rc.Runlinkat{}, true
	case *rc.Trenameat:
		return &rc.Rrenameat{}, true
	case *rc.Trename:
		return &rc.Rrename{}, true
	case *rc.Tlink:
		return &rc.Rlink{}, true
	case *rc.Tremove:
		return &rc.Rremove{}, true
	case *rc.Tclunk:
		return &rc.Rclunk{}, true
	case *rc.Tflush:
		return &rc.Rflush{}, true
	case *rc.Txattrcreate:
		return &rc.Rxattrcreate{}, true
	}
	return nil, false
}

// ---- refcodec -> p9 (what a client call must return for a given reply)

func qidFromRC(q rc.QID) p9.QID {
	return p9.QID{Type: p9.QIDType(q.Type), Version: q.Version, Path: q.Path}
}

func qidsFromRC(qs []rc.QID) []p9.QID {
	var out []p9.QID
	for _, q := range qs {
		out = append(out, qidFromRC(q))
	}
	return out
}

func attrFromRC(a rc.Attr) p9.Attr {
	return p9.Attr{Mode: p9.FileMode(a.Mode), UID: p9.UID(a.UID), GID: p9.GID(a.GID), NLink: p9.NLink(a.NLink), RDev: p9.Dev(a.RDev),
		Size: a.Size, BlockSize: a.BlockSize, Blocks: a.Blocks, ATimeSeconds: a.ATimeSec, ATimeNanoSeconds: a.ATimeNsec,
		MTimeSeconds: a.MTimeSec, MTimeNanoSeconds: a.MTimeNsec, CTimeSeconds: a.CTimeSec, CTimeNanoSeconds: a.CTimeNsec,
		BTimeSeconds: a.BTimeSec, BTimeNanoSeconds: a.BTimeNsec, Gen: a.Gen, DataVersion: a.DataVersion}
}

func maskFromRC(v uint64) p9.AttrMask {
	return p9.AttrMask{Mode: v&rc.GetattrMode != 0, NLink: v&rc.GetattrNlink != 0, UID: v&rc.GetattrUID != 0, GID: v&rc.GetattrGID != 0,
		RDev: v&rc.GetattrRdev != 0, ATime: v&rc.GetattrAtime != 0, MTime: v&rc.GetattrMtime != 0, CTime: v&rc.GetattrCtime != 0,
		INo: v&rc.GetattrIno != 0, Size: v&rc.GetattrSize != 0, Blocks: v&rc.GetattrBlocks != 0, BTime: v&rc.GetattrBtime != 0,
		Gen: v&rc.GetattrGen != 0, DataVersion: v&rc.GetattrDataVersion != 0}
}

func setMaskFromRC(v uint32) p9.SetAttrMask {
	return p9.SetAttrMask{Permissions: v&rc.SetattrMode != 0, UID: v&rc.SetattrUID != 0, GID: v&rc.SetattrGID != 0, Size: v&rc.SetattrSize != 0,
		ATime: v&rc.SetattrAtime != 0, MTime: v&rc.SetattrMtime != 0, CTime: v&rc.SetattrCtime != 0,
		ATimeNotSystemTime: v&rc.SetattrAtimeSet != 0, MTimeNotSystemTime: v&rc.SetattrMtimeSet != 0}
}

func statFromRC(s *rc.Rstatfs) p9.FSStat {
	return p9.FSStat{Type: s.Type, BlockSize: s.Bsize, Blocks: s.Blocks, BlocksFree: s.Bfree, BlocksAvailable: s.Bavail, Files: s.Files, FilesFree: s.Ffree, FSID: s.Fsid, NameLength: s.Namelen}
}

func direntsFromRC(ds []rc.Dirent) p9.Dirents {
	var out p9.Dirents
	for _, d := range ds {
		out = append(out, p9.Dirent{QID: qidFromRC(d.QID), Offset: d.Offset, Type: p9.QIDType(d.Type), Name: d.Name})
	}
	return out
}
