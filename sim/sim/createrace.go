package sim

import (
	"fmt"

	rc "github.com/hugelgupf/p9/zzverif/refcodec"
	"github.com/hugelgupf/p9/zzverif/simfs"
	"github.com/hugelgupf/p9/zzverif/simrt"
)

// A request that makes a new entry (A) is parked inside its backend call; a
// second request (B) that renames, replaces or unlinks the very name A is
// making is issued and queues behind A's lock; A is released and the tape
// decides how the tail of A (publishing the new fid) interleaves with B.
// Afterwards the fid A produced must still denote the object A made, at its
// current path, the backend must have been told about every move, and at the
// end every File must have been closed once.
//
// The scenario exists because of a defect a thorough C05 run found in one of
// 1.8 million random runs (DESIGN.md §6.1, Tlcreate): the window is a handful
// of steps wide, so random workloads hit it very rarely, while this family
// hits it in a large fraction of its schedules.

type createRaceCase struct {
	name string
	// B is built from the directory fids: d1/d2 are two fids on the directory
	// A creates in, other is a fid on another directory.
	B func(d2, other uint32) rc.Message
	// after B the new object is at (dir path, name); "" = unlinked
	dir, nm string
}

var createRaceCases = []createRaceCase{
	{"renameat-to-other-dir", func(d2, o uint32) rc.Message {
		return &rc.Trenameat{OldDirFid: d2, OldName: "n", NewDirFid: o, NewName: "m"}
	}, "/b", "m"},
	{"renameat-in-place", func(d2, o uint32) rc.Message {
		return &rc.Trenameat{OldDirFid: d2, OldName: "n", NewDirFid: d2, NewName: "m"}
	}, "/a", "m"},
	{"renameat-onto-existing", func(d2, o uint32) rc.Message {
		return &rc.Trenameat{OldDirFid: d2, OldName: "n", NewDirFid: d2, NewName: "x"}
	}, "/a", "x"},
	{"unlinkat", func(d2, o uint32) rc.Message { return &rc.Tunlinkat{DirFid: d2, Name: "n"} }, "", ""},
	{"other-renamed-onto-it", func(d2, o uint32) rc.Message {
		return &rc.Trenameat{OldDirFid: d2, OldName: "x", NewDirFid: d2, NewName: "n"}
	}, "", ""},
	{"rename-of-the-directory", func(d2, o uint32) rc.Message {
		return &rc.Trenameat{OldDirFid: 0, OldName: "a", NewDirFid: o, NewName: "a2"}
	}, "/b/a2", "n"},
}

const createRaceSchedules = 48

func createRaceCount() int { return len(createRaceCases) * 2 * createRaceSchedules }

func runCreateRace(rcx *RunCtx, k int) {
	cfg := simCfg(rcx)
	cs := createRaceCases[k%len(createRaceCases)]
	cross := (k/len(createRaceCases))%2 == 1
	rcx.Label = fmt.Sprintf("create-race %s cross=%v", cs.name, cross)
	rcx.Sample = map[string]interface{}{"scenario": "create racing with " + cs.name, "B_on_other_connection": cross}
	find := func(oracle, key, format string, args ...interface{}) {
		rcx.Find("C08", oracle, key, format, args...)
	}
	rcx.Res = simrt.Run(cfg, rcx.Sched, func() {
		fs := simfs.New()
		fs.WalkGetAttrENOSYS = rcx.Plan.Choose(2) == 1
		fs.MkPath("/a/")
		fs.MkPath("/a/x")
		fs.MkPath("/b/")
		w := NewWorld(nil, fs)
		ca := w.Connect()
		cb := ca
		if cross {
			cb = w.Connect()
		}
		ok := ca.Start(8192, "9P2000.L.Google.7") && ca.WalkTo(0, 1, "/a")
		if cross {
			ok = ok && cb.Start(8192, "9P2000.L.Google.7")
		}
		ok = ok && cb.WalkTo(0, 2, "/a") && cb.WalkTo(0, 3, "/b")
		if !ok {
			find("setup", "setup", "setup failed")
			return
		}
		var held *simfs.Call
		fs.Hold = func(c *simfs.Call) bool {
			if held == nil && c.Method == "Create" {
				held = c
				return true
			}
			return false
		}
		reqA := ca.Send(ca.Tag(), &rc.Tlcreate{Fid: 1, Name: "n", Flags: 2, Mode: 0o644})
		simrt.WaitQuiescent()
		if held == nil {
			find("setup", "hold", "the create did not reach the backend")
			return
		}
		reqB := cb.Send(cb.Tag(), cs.B(2, 3))
		simrt.WaitQuiescent()
		fs.Hold = nil
		held.Release()
		simrt.WaitQuiescent()
		if reqA.Reply == nil || reqB.Reply == nil {
			rcx.Find("C06", "no-reply", "create-race", "create %v / %s %v not answered", reqA.Reply != nil, cs.name, reqB.Reply != nil)
			return
		}
		ra, okA := reqA.Reply.Msg.(*rc.Rlcreate)
		if !okA {
			find("create-failed", cs.name, "Tlcreate answered %s", rc.String(reqA.Reply.Msg))
			return
		}
		if e := Errno(reqB.Reply.Msg); e != 0 {
			find("b-failed", cs.name, "%s answered %s although the entry exists once the create is done", rc.String(cs.B(2, 3)), rc.String(reqB.Reply.Msg))
		}
		rcx.Count("create_race.both_succeeded", 1)
		ino := ra.QID.Path
		probe := func(what string, c *SrvConn, m rc.Message) rc.Message {
			req := c.Send(c.Tag(), m)
			simrt.WaitQuiescent()
			if req.Reply == nil {
				rcx.Find("C06", "no-reply", "create-race", "%s: %s not answered", what, rc.String(m))
				return nil
			}
			return req.Reply.Msg
		}
		// the backend's own idea of every handle's path agrees with the tree
		for _, v := range fs.CheckCoherence() {
			find(v.Oracle, "create-race", "after create || %s: %s", cs.name, v.Detail)
		}
		// fid 1 still is the created file
		if rep := probe("created fid", ca, &rc.Tgetattr{Fid: 1, Mask: rc.GetattrIno | rc.GetattrMode}); rep != nil {
			if ga, ok := rep.(*rc.Rgetattr); !ok || ga.QID.Path != ino {
				find("fid-lost-object", "create-race", "after create || %s: Tgetattr through the created fid gives %s, it was bound to inode %d", cs.name, rc.String(rep), ino)
			}
		}
		// and can be cloned (walking in place is what breaks when the path tree lost it)
		if rep := probe("clone", ca, &rc.Twalk{Fid: 1, NewFid: 9}); rep != nil {
			if _, ok := rep.(*rc.Rwalk); !ok {
				find("clone-of-created-fid-failed", "create-race", "after create || %s: cloning the created fid gives %s", cs.name, rc.String(rep))
			} else if rep2 := probe("clone getattr", ca, &rc.Tgetattr{Fid: 9, Mask: rc.GetattrIno}); rep2 != nil {
				if ga, ok := rep2.(*rc.Rgetattr); !ok || ga.QID.Path != ino {
					find("fid-lost-object", "create-race-clone", "after create || %s: the clone of the created fid gives %s, want inode %d", cs.name, rc.String(rep2), ino)
				}
			}
		}
		// where the statement lets us say where the object is now, it is there
		if cs.dir != "" {
			d := fs.Lookup(cs.dir)
			var got *simfs.Inode
			if d != nil {
				got = d.Child(cs.nm)
			}
			if got == nil || got.Ino != ino {
				find("rename-misdirected", "create-race", "after create || %s: inode %d is not at %s/%s", cs.name, ino, cs.dir, cs.nm)
			}
			// a later move through the fid uses the current name
			if rep := probe("rename through fid", ca, &rc.Trename{Fid: 1, Dfid: 0, Name: "final"}); rep != nil {
				if _, ok := rep.(*rc.Rrename); !ok {
					find("rename-through-fid-failed", "create-race", "after create || %s: Trename of the created fid gives %s", cs.name, rc.String(rep))
				} else if got := fs.Lookup("/").Child("final"); got == nil || got.Ino != ino {
					find("rename-misdirected", "create-race-final", "after create || %s and Trename to /final: inode %d is not there", cs.name, ino)
				}
			}
		}
		w.Shutdown()
		rcx.Findings = append(rcx.Findings, w.Findings...)
	})
	finishRun(rcx)
}

// Replace-race: a Twalk onto a fid number that is bound (A) is parked inside
// the Close of the File it displaces; a second request on that fid number (B)
// - which now denotes the new File - is issued meanwhile.  Whatever the order,
// every File ends up closed exactly once and none is used after its Close.
var replaceRaceB = []struct {
	name string
	m    func() rc.Message
}{
	{"clunk", func() rc.Message { return &rc.Tclunk{Fid: 1} }},
	{"getattr", func() rc.Message { return &rc.Tgetattr{Fid: 1, Mask: rc.GetattrAll} }},
	{"clone", func() rc.Message { return &rc.Twalk{Fid: 1, NewFid: 5} }},
	{"remove", func() rc.Message { return &rc.Tremove{Fid: 1} }},
	{"walk-again", func() rc.Message { return &rc.Twalk{Fid: 0, NewFid: 1, Names: []string{"a"}} }},
}

const replaceRaceSchedules = 24

func replaceRaceCount() int { return len(replaceRaceB) * replaceRaceSchedules }

func runReplaceRace(rcx *RunCtx, k int) {
	cfg := simCfg(rcx)
	b := replaceRaceB[k%len(replaceRaceB)]
	rcx.Label = "replace-race " + b.name
	rcx.Sample = map[string]interface{}{"scenario": "Twalk onto a bound fid number parked in the displaced File's Close, racing with " + b.name + " on that fid"}
	rcx.Res = simrt.Run(cfg, rcx.Sched, func() {
		fs := simfs.New()
		fs.WalkGetAttrENOSYS = rcx.Plan.Choose(2) == 1
		fs.MkPath("/a/")
		fs.MkPath("/b")
		fs.MkPath("/c")
		w := NewWorld(nil, fs)
		c := w.Connect()
		if !c.Start(8192, "9P2000.L.Google.7") || !c.WalkTo(0, 1, "/b") {
			rcx.Find("C05", "setup", "setup", "setup failed")
			return
		}
		var held *simfs.Call
		mark := fs.NCalls
		fs.Hold = func(cl *simfs.Call) bool {
			if held == nil && cl.Seq >= mark && cl.Method == "Close" {
				held = cl
				return true
			}
			return false
		}
		reqA := c.Send(c.Tag(), &rc.Twalk{Fid: 0, NewFid: 1, Names: []string{"c"}})
		simrt.WaitQuiescent()
		if held == nil {
			rcx.Trivial = true
		}
		reqB := c.Send(c.Tag(), b.m())
		simrt.WaitQuiescent()
		fs.Hold = nil
		if held != nil {
			held.Release()
		}
		simrt.WaitQuiescent()
		if reqA.Reply == nil || reqB.Reply == nil {
			rcx.Find("C06", "no-reply", "replace-race", "walk answered: %v, %s answered: %v", reqA.Reply != nil, b.name, reqB.Reply != nil)
		}
		for _, fid := range []uint32{1, 5} {
			c.Send(c.Tag(), &rc.Tclunk{Fid: fid})
			simrt.WaitQuiescent()
		}
		w.Shutdown()
		rcx.Findings = append(rcx.Findings, w.Findings...)
	})
	finishRun(rcx)
}

// Walk-race: a two-component Twalk (A) is parked inside the backend call for
// its second component; a rename of the first component, a rename of the
// second, or an unlink of the second (B) queues behind it; A is released and
// the tape decides how the end of the walk (publishing the new fid and the
// Files it obtained) interleaves with B.  Afterwards every File the backend
// handed out is where the tree says, and the new fid denotes the object the
// walk reached.
var walkRaceB = []struct {
	name string
	m    func() rc.Message
}{
	{"rename-first-component", func() rc.Message { return &rc.Trenameat{OldDirFid: 0, OldName: "a", NewDirFid: 0, NewName: "c"} }},
	{"rename-second-component", func() rc.Message { return &rc.Trenameat{OldDirFid: 2, OldName: "b", NewDirFid: 2, NewName: "x"} }},
	{"move-second-component-away", func() rc.Message { return &rc.Trenameat{OldDirFid: 2, OldName: "b", NewDirFid: 0, NewName: "y"} }},
	{"unlink-second-component", func() rc.Message { return &rc.Tunlinkat{DirFid: 2, Name: "b"} }},
}

const walkRaceSchedules = 32

func walkRaceCount() int { return len(walkRaceB) * 2 * walkRaceSchedules }

func runWalkRace(rcx *RunCtx, k int) {
	cfg := simCfg(rcx)
	b := walkRaceB[k%len(walkRaceB)]
	cross := (k/len(walkRaceB))%2 == 1
	rcx.Label = fmt.Sprintf("walk-race %s cross=%v", b.name, cross)
	rcx.Sample = map[string]interface{}{"scenario": "two-component walk parked at its second step racing with " + b.name, "B_on_other_connection": cross}
	find := func(oracle, key, format string, args ...interface{}) {
		rcx.Find("C08", oracle, key, format, args...)
	}
	rcx.Res = simrt.Run(cfg, rcx.Sched, func() {
		fs := simfs.New()
		fs.WalkGetAttrENOSYS = rcx.Plan.Choose(2) == 1
		fs.MkPath("/a/")
		target := fs.MkPath("/a/b")
		w := NewWorld(nil, fs)
		ca := w.Connect()
		cb := ca
		if cross {
			cb = w.Connect()
		}
		ok := ca.Start(8192, "9P2000.L.Google.7")
		if cross {
			ok = ok && cb.Start(8192, "9P2000.L.Google.7")
		}
		ok = ok && cb.WalkTo(0, 2, "/a")
		if !ok {
			find("setup", "setup", "setup failed")
			return
		}
		var held *simfs.Call
		fs.Hold = func(c *simfs.Call) bool {
			if held == nil && (c.Method == "Walk" || c.Method == "WalkGetAttr") && len(c.Names) == 1 && c.Names[0] == "b" {
				held = c
				return true
			}
			return false
		}
		reqA := ca.Send(ca.Tag(), &rc.Twalk{Fid: 0, NewFid: 1, Names: []string{"a", "b"}})
		simrt.WaitQuiescent()
		if held == nil {
			find("setup", "hold", "the walk did not reach its second component")
			return
		}
		reqB := cb.Send(cb.Tag(), b.m())
		simrt.WaitQuiescent()
		fs.Hold = nil
		held.Release()
		simrt.WaitQuiescent()
		if reqA.Reply == nil || reqB.Reply == nil {
			rcx.Find("C06", "no-reply", "walk-race", "walk answered: %v, %s answered: %v", reqA.Reply != nil, b.name, reqB.Reply != nil)
			return
		}
		if _, ok := reqA.Reply.Msg.(*rc.Rwalk); !ok {
			find("walk-failed", b.name, "Twalk [a b] answered %s although both components existed while it ran", rc.String(reqA.Reply.Msg))
			return
		}
		rcx.Count("walk_race.walk_succeeded", 1)
		for _, v := range fs.CheckCoherence() {
			find(v.Oracle, "walk-race", "after walk [a b] || %s: %s", b.name, v.Detail)
		}
		g := ca.Send(ca.Tag(), &rc.Tgetattr{Fid: 1, Mask: rc.GetattrIno})
		simrt.WaitQuiescent()
		if g.Reply == nil {
			rcx.Find("C06", "no-reply", "walk-race", "Tgetattr through the walked fid not answered")
		} else if ga, ok := g.Reply.Msg.(*rc.Rgetattr); ok {
			if ga.QID.Path != target.Ino {
				find("fid-lost-object", "walk-race", "after walk [a b] || %s: the walked fid reports inode %d, the walk reached inode %d", b.name, ga.QID.Path, target.Ino)
			}
		} else if b.name != "unlink-second-component" {
			find("fid-lost-object", "walk-race", "after walk [a b] || %s: Tgetattr through the walked fid gives %s", b.name, rc.String(g.Reply.Msg))
		}
		c2 := ca.Send(ca.Tag(), &rc.Twalk{Fid: 1, NewFid: 9})
		simrt.WaitQuiescent()
		if c2.Reply != nil && Errno(c2.Reply.Msg) == EFAULT {
			find("clone-of-walked-fid-failed", "walk-race", "after walk [a b] || %s: cloning the walked fid gives EFAULT", b.name)
		}
		w.Shutdown()
		rcx.Findings = append(rcx.Findings, w.Findings...)
	})
	finishRun(rcx)
}

// Deep fence: the backend lets a non-empty directory be unlinked or
// overwritten (a backend is free to).  Fids on the entry and one, two and
// three levels below it are fenced: a walk to a child fails with ENOENT and a
// creation inside fails with EINVAL, neither reaching the backend.
func deepFenceCount() int { return 4 }

func runDeepFence(rcx *RunCtx, k int) {
	cfg := simCfg(rcx)
	overwrite := k%2 == 1
	cross := k/2 == 1
	rcx.Label = fmt.Sprintf("deep-fence overwrite=%v cross=%v", overwrite, cross)
	rcx.Sample = map[string]interface{}{"scenario": "fids 0-3 levels below a removed non-empty directory", "removed_by_rename_over_it": overwrite, "removal_on_other_connection": cross}
	find := func(oracle, key, format string, args ...interface{}) {
		rcx.Find("C08", oracle, key, format, args...)
	}
	rcx.Res = simrt.Run(cfg, rcx.Sched, func() {
		fs := simfs.New()
		fs.RecursiveRemove = true
		fs.WalkGetAttrENOSYS = rcx.Plan.Choose(2) == 1
		fs.MkPath("/x/y/z/w/")
		fs.MkPath("/other/")
		w := NewWorld(nil, fs)
		ca := w.Connect()
		cb := ca
		if cross {
			cb = w.Connect()
		}
		ok := ca.Start(8192, "9P2000.L.Google.7")
		if cross {
			ok = ok && cb.Start(8192, "9P2000.L.Google.7")
		}
		paths := []string{"/x", "/x/y", "/x/y/z", "/x/y/z/w"}
		for i, p := range paths {
			ok = ok && ca.WalkTo(0, uint32(1+i), p)
		}
		if !ok {
			find("setup", "setup", "setup failed")
			return
		}
		var rm rc.Message = &rc.Tunlinkat{DirFid: 0, Name: "x"}
		if overwrite {
			rm = &rc.Trenameat{OldDirFid: 0, OldName: "other", NewDirFid: 0, NewName: "x"}
		}
		if rep := cb.RPC(rm); Errno(rep) != 0 {
			find("setup", "remove", "%s failed: %s", rc.String(rm), rc.String(rep))
			return
		}
		for i, p := range paths {
			fid := uint32(1 + i)
			mark := len(fs.Calls)
			rep := ca.RPC(&rc.Twalk{Fid: fid, NewFid: 20, Names: []string{"child"}})
			if Errno(rep) != ENOENT {
				find("not-fenced", fmt.Sprintf("walk/depth%d", i), "after %s, a walk to a child from the fid on %s (%d levels below the removed entry) gives %s, want ENOENT", rc.String(rm), p, i, rc.String(rep))
			}
			rep2 := ca.RPC(&rc.Tmkdir{Dfid: fid, Name: "new", Mode: 0o755})
			if Errno(rep2) != EINVAL {
				find("not-fenced", fmt.Sprintf("mkdir/depth%d", i), "after %s, Tmkdir in the fid on %s (%d levels below the removed entry) gives %s, want EINVAL", rc.String(rm), p, i, rc.String(rep2))
			}
			for _, cl := range fs.Calls[mark:] {
				if cl.Method != "Close" {
					find("fenced-fid-reached-backend", fmt.Sprintf("depth%d", i), "after %s, a request through the fenced fid on %s reached the backend: %s", rc.String(rm), p, cl)
					break
				}
			}
		}
		w.Shutdown()
		rcx.Findings = append(rcx.Findings, w.Findings...)
	})
	finishRun(rcx)
}

// Rename-race: a rename of an entry (A) is parked inside the backend; a
// Trename or Tremove through a fid on that entry (B) queues behind it.  When B
// runs, the entry has another name: "Trename/Tremove use the entry's current
// name".
var renameRaceB = []struct {
	name string
	m    func() rc.Message
	// where the object is afterwards ("" = removed)
	dir, nm string
}{
	{"trename-to-root", func() rc.Message { return &rc.Trename{Fid: 1, Dfid: 0, Name: "z"} }, "/", "z"},
	{"trename-in-place", func() rc.Message { return &rc.Trename{Fid: 1, Dfid: 2, Name: "w"} }, "/a", "w"},
	{"tremove", func() rc.Message { return &rc.Tremove{Fid: 1} }, "", ""},
}

const renameRaceSchedules = 16

func renameRaceCount() int { return len(renameRaceB) * 2 * renameRaceSchedules }

func runRenameRace(rcx *RunCtx, k int) {
	cfg := simCfg(rcx)
	b := renameRaceB[k%len(renameRaceB)]
	cross := (k/len(renameRaceB))%2 == 1
	rcx.Label = fmt.Sprintf("rename-race %s cross=%v", b.name, cross)
	rcx.Sample = map[string]interface{}{"scenario": "Trenameat of an entry parked in the backend, " + b.name + " through a fid on that entry queued behind it", "A_on_other_connection": cross}
	find := func(oracle, key, format string, args ...interface{}) {
		rcx.Find("C08", oracle, key, format, args...)
	}
	rcx.Res = simrt.Run(cfg, rcx.Sched, func() {
		fs := simfs.New()
		fs.WalkGetAttrENOSYS = rcx.Plan.Choose(2) == 1
		fs.MkPath("/a/")
		obj := fs.MkPath("/a/x")
		w := NewWorld(nil, fs)
		cb := w.Connect()
		ca := cb
		if cross {
			ca = w.Connect()
		}
		ok := cb.Start(8192, "9P2000.L.Google.7") && cb.WalkTo(0, 1, "/a/x") && cb.WalkTo(0, 2, "/a")
		if cross {
			ok = ok && ca.Start(8192, "9P2000.L.Google.7")
		}
		ok = ok && ca.WalkTo(0, 5, "/a")
		if !ok {
			find("setup", "setup", "setup failed")
			return
		}
		var held *simfs.Call
		fs.Hold = func(c *simfs.Call) bool {
			if held == nil && c.Method == "RenameAt" {
				held = c
				return true
			}
			return false
		}
		reqA := ca.Send(ca.Tag(), &rc.Trenameat{OldDirFid: 5, OldName: "x", NewDirFid: 5, NewName: "y"})
		simrt.WaitQuiescent()
		if held == nil {
			find("setup", "hold", "the rename did not reach the backend")
			return
		}
		reqB := cb.Send(cb.Tag(), b.m())
		simrt.WaitQuiescent()
		fs.Hold = nil
		held.Release()
		simrt.WaitQuiescent()
		if reqA.Reply == nil || reqB.Reply == nil {
			rcx.Find("C06", "no-reply", "rename-race", "rename answered: %v, %s answered: %v", reqA.Reply != nil, b.name, reqB.Reply != nil)
			return
		}
		if Errno(reqA.Reply.Msg) != 0 {
			find("setup", "rename-a", "the first rename failed: %s", rc.String(reqA.Reply.Msg))
			return
		}
		if e := Errno(reqB.Reply.Msg); e != 0 {
			find("stale-name-used", b.name, "%s through a fid on an entry that had just been renamed from x to y answered %s: the request was carried out under a name the entry no longer has", rc.String(b.m()), rc.String(reqB.Reply.Msg))
		}
		for _, cl := range fs.Calls {
			if cl.Req == reqB && (cl.Method == "RenameAt" || cl.Method == "UnlinkAt") && cl.Name != "y" {
				find("stale-name-used", b.name+"/backend", "%s reached the backend as %s: the entry's current name is y", rc.String(b.m()), cl)
			}
		}
		if b.dir != "" && len(rcx.Findings) == 0 {
			d := fs.Lookup(b.dir)
			var got *simfs.Inode
			if d != nil {
				got = d.Child(b.nm)
			}
			if got == nil || got.Ino != obj.Ino {
				find("rename-misdirected", "rename-race", "after %s the object is not at %s/%s", b.name, b.dir, b.nm)
			}
		}
		for _, v := range fs.CheckCoherence() {
			find(v.Oracle, "rename-race", "after rename x->y || %s: %s", b.name, v.Detail)
		}
		w.Shutdown()
		rcx.Findings = append(rcx.Findings, w.Findings...)
	})
	finishRun(rcx)
}
