package sim

import (
	"fmt"
	"os"
	"path/filepath"

	"github.com/hugelgupf/p9/fsimpl/composefs"
	"github.com/hugelgupf/p9/fsimpl/localfs"
	"github.com/hugelgupf/p9/fsimpl/qids"
	"github.com/hugelgupf/p9/fsimpl/staticfs"
	"github.com/hugelgupf/p9/p9"
	rc "github.com/hugelgupf/p9/zzverif/refcodec"
	"github.com/hugelgupf/p9/zzverif/simrt"
)

// C20 — QID identity and mode/type mapping are stable and injective.
//
//	(a) localfs (dev, ino) -> path: concurrent tasks look up likely and
//	    unlikely pairs through the verif-tagged export; every pair has one
//	    path for good, distinct pairs have distinct paths.
//	(b) the QID mapper of staticfs/composefs: concurrent tasks and concurrent
//	    requests through a composed file system under the real server; a
//	    get-or-assign model: same source => same path for good, different
//	    sources => different paths; QID type = type of the mode.  The race
//	    detector batch covers "must never crash the server".
//	(c) FileMode <-> os.FileMode: exhaustive 7 types x 4096 permission values;
//	    a pure function — NOT a simulation result, reported separately.

type goaModel struct {
	val  simrt.PMap[string, uint64]
	owner simrt.PMap[uint64, string]
}

// observe records that key mapped to path and reports a contradiction.
func (m *goaModel) observe(key string, path uint64) string {
	if old, ok := m.val.Get2(key); ok && old != path {
		return fmt.Sprintf("%s was given path %#x and later %#x", key, old, path)
	}
	if o, ok := m.owner.Get2(path); ok && o != key {
		return fmt.Sprintf("path %#x was given to both %s and %s", path, o, key)
	}
	m.val.Set(key, path)
	m.owner.Set(path, key)
	return ""
}

var c20Devs = []uint64{0, 1, 0x801, 0xfd00, 1 << 12, 1<<12 | 5, 0xfff00, 0x100000, 0xfffff, 0x123456789, 1 << 40, 0xffffffffffffffff, 0x80000000000}
var c20Inos = []uint64{0, 1, 2, 12345, 1<<39 - 1, 1 << 39, 1<<39 + 1, 1 << 40, 1 << 63, 0xffffffffffffffff, 0xdeadbeefcafe}

func c20Local(rcx *RunCtx) {
	cfg := simCfg(rcx)
	cfg.YieldAtomics = true
	p := rcx.Plan
	ntasks := 2 + p.Choose(7)
	nlook := 10 + p.Choose(40)
	localfs.VerifResetQIDs() // the table is process-wide: every run starts from a fresh process's
	rcx.Label = "localfs (dev,ino)"
	rcx.Sample = map[string]interface{}{"part": "localfs device/inode -> QID path", "tasks": ntasks, "lookups_per_task": nlook}
	rcx.Res = simrt.Run(cfg, rcx.Sched, func() {
		var model goaModel
		done := 0
		for t := 0; t < ntasks; t++ {
			simrt.GoNamed(fmt.Sprintf("lookup%d", t), func() {
				for i := 0; i < nlook; i++ {
					dev := c20Devs[simrt.Choose(len(c20Devs))]
					ino := c20Inos[simrt.Choose(len(c20Inos))]
					if simrt.Choose(4) == 0 {
						ino += uint64(simrt.Choose(3)) // neighbours must not collide either
					}
					q, err := localfs.VerifLocalToQID(dev, ino)
					if err != nil {
						rcx.Find("C20", "localfs-lookup-failed", "err", "localToQid(%#x, %#x) failed: %v", dev, ino, err)
						continue
					}
					if d := model.observe(fmt.Sprintf("(dev %#x, ino %#x)", dev, ino), q); d != "" {
						rcx.Find("C20", "localfs-qid-unstable-or-colliding", "devino", "%s", d)
					}
					rcx.Count("localfs.lookups", 1)
				}
				done++
			})
		}
		simrt.Block("lookups done", func() bool { return done == ntasks })
	})
	finishRun(rcx)
}

func c20Mapper(rcx *RunCtx) {
	cfg := simCfg(rcx)
	cfg.YieldAtomics = true
	p := rcx.Plan
	ntasks := 2 + p.Choose(7)
	nlook := 6 + p.Choose(30)
	nkeys := 1 + p.Choose(6)
	// "for good" also means after many other files: now and then one mapper
	// sees more distinct sources than any plausible table bound
	many := 0
	if rcx.Index%97 == 1 {
		many = []int{70000, 140000}[p.Choose(2)]
		ntasks = 1
		cfg.MaxSteps = 3000000
	}
	rcx.Label = "qids.Mapper direct"
	rcx.Sample = map[string]interface{}{"part": "qids.Mapper get-or-assign", "tasks": ntasks, "lookups_per_task": nlook, "distinct_sources": nkeys, "distinct_sources_in_between": many}
	rcx.Res = simrt.Run(cfg, rcx.Sched, func() {
		g := &qids.PathGenerator{}
		m := qids.NewMapper(g)
		var model goaModel
		done := 0
		for t := 0; t < ntasks; t++ {
			simrt.GoNamed(fmt.Sprintf("mapper%d", t), func() {
				for i := 0; i < nlook; i++ {
					if many > 0 && i == nlook/2 {
						for k := 0; k < many; k++ {
							src := uint64(1000000 + k)
							q := m.QIDFor(p9.QID{Type: p9.TypeRegular, Path: src})
							if k%997 == 0 {
								if d := model.observe(fmt.Sprintf("source path %d", src), q.Path); d != "" {
									rcx.Find("C20", "mapper-unstable-or-colliding", "mapper", "%s", d)
								}
							}
						}
						rcx.Count("mapper.lookups_of_many_sources", many)
					}
					src := uint64(1000 + simrt.Choose(nkeys))
					typ := []p9.QIDType{p9.TypeRegular, p9.TypeDir, p9.TypeSymlink}[src%3]
					q := m.QIDFor(p9.QID{Type: typ, Version: uint32(src), Path: src})
					if q.Type != typ || q.Version != uint32(src) {
						rcx.Find("C20", "mapper-changed-type", "type", "QIDFor changed type/version: %v -> %v", typ, q)
					}
					if d := model.observe(fmt.Sprintf("source path %d", src), q.Path); d != "" {
						rcx.Find("C20", "mapper-unstable-or-colliding", "mapper", "%s", d)
					}
					rcx.Count("mapper.lookups", 1)
				}
				done++
			})
		}
		simrt.Block("lookups done", func() bool { return done == ntasks })
	})
	finishRun(rcx)
}

// c20Composed: concurrent requests through composefs under the real server.
func c20Composed(rcx *RunCtx) {
	cfg := simCfg(rcx)
	cfg.YieldAtomics = true
	p := rcx.Plan
	nconn := 1 + p.Choose(3)
	perConn := 1 + p.Choose(3)
	nops := 4 + p.Choose(14)
	localfs.VerifResetQIDs()
	rcx.Label = "composefs under the server"
	rcx.Sample = map[string]interface{}{"part": "concurrent QID lookups through composefs (staticfs + localfs mounts) under the real server", "connections": nconn, "threads_per_connection": perConn, "ops": nops}
	tmp, err := os.MkdirTemp("", "p9verif-c20-")
	if err != nil {
		panic(err)
	}
	defer os.RemoveAll(tmp)
	local := []string{"la", "lb", "ldir"}
	os.WriteFile(filepath.Join(tmp, "la"), []byte("a"), 0o644)
	os.WriteFile(filepath.Join(tmp, "lb"), []byte("b"), 0o644)
	os.Mkdir(filepath.Join(tmp, "ldir"), 0o755)
	static := []string{"s1", "s2", "s3", "s4"}
	rcx.Res = simrt.Run(cfg, rcx.Sched, func() {
		var sopts []staticfs.Option
		for _, s := range static {
			sopts = append(sopts, staticfs.WithFile(s, "content "+s))
		}
		st, err := staticfs.New(sopts...)
		if err != nil {
			rcx.Find("C20", "setup", "staticfs", "%v", err)
			return
		}
		cfs, err := composefs.New(composefs.WithMount("static", st), composefs.WithMount("local", localfs.Attacher(tmp)),
			composefs.WithFile("f1", staticfs.ReadOnlyFile("one")), composefs.WithFile("f2", staticfs.ReadOnlyFile("two")))
		if err != nil {
			rcx.Find("C20", "setup", "composefs", "%v", err)
			return
		}
		w := NewWorld(cfs, nil)
		var model goaModel
		note := func(key string, q rc.QID, wantDir bool) {
			if d := model.observe(key, q.Path); d != "" {
				rcx.Find("C20", "qid-unstable-or-colliding", "composefs", "%s", d)
			}
			if wantDir != (q.Type&rc.QTDir != 0) {
				rcx.Find("C20", "qid-type-mismatch", "type", "%s: QID type %#x, directory expected: %v", key, q.Type, wantDir)
			}
		}
		paths := [][]string{{"static"}, {"local"}, {"f1"}, {"f2"}}
		for _, s := range static {
			paths = append(paths, []string{"static", s})
		}
		for _, s := range local {
			paths = append(paths, []string{"local", s})
		}
		isDir := func(pth []string) bool {
			last := pth[len(pth)-1]
			return last == "static" || last == "local" || last == "ldir"
		}
		done, total := 0, 0
		for ci := 0; ci < nconn; ci++ {
			c := w.Connect()
			if !c.Start(8192, "9P2000.L.Google.7") {
				rcx.Find("C20", "setup", "start", "negotiation/attach failed")
				return
			}
			for ti := 0; ti < perConn; ti++ {
				total++
				base := uint32(100 * (ti + 1))
				simrt.GoNamed(fmt.Sprintf("cli%d.%d", ci, ti), func() {
					simrt.Current().Role = "peer"
					for k := 0; k < nops; k++ {
						pth := paths[simrt.Choose(len(paths))]
						fid := base + uint32(k%8)
						req := c.Send(c.Tag(), &rc.Twalk{Fid: 0, NewFid: fid, Names: pth})
						simrt.Block("await", func() bool { return req.Reply != nil })
						rw, ok := req.Reply.Msg.(*rc.Rwalk)
						if !ok || len(rw.QIDs) != len(pth) {
							rcx.Find("C20", "walk-failed", "walk", "Twalk %v answered %s", pth, req.Reply)
							continue
						}
						for i := range pth {
							note("/"+filepath.Join(pth[:i+1]...), rw.QIDs[i], isDir(pth[:i+1]))
						}
						g := c.Send(c.Tag(), &rc.Tgetattr{Fid: fid, Mask: rc.GetattrAll})
						simrt.Block("await", func() bool { return g.Reply != nil })
						if ga, ok := g.Reply.Msg.(*rc.Rgetattr); ok {
							note("/"+filepath.Join(pth...), ga.QID, isDir(pth))
							if (ga.Attr.Mode&rc.SIfmt == rc.SIfdir) != (ga.QID.Type&rc.QTDir != 0) {
								rcx.Find("C20", "qid-type-vs-mode", "type", "%v: mode %o but QID type %#x", pth, ga.Attr.Mode, ga.QID.Type)
							}
						}
						cl := c.Send(c.Tag(), &rc.Tclunk{Fid: fid})
						simrt.Block("await", func() bool { return cl.Reply != nil })
						rcx.Count("composefs.walks", 1)
					}
					done++
				})
			}
		}
		simrt.Block("threads done", func() bool { return done == total })
		for _, c := range w.Conns {
			c.Close()
		}
		simrt.WaitQuiescent()
		for _, c := range w.Conns {
			rcx.Findings = append(rcx.Findings, c.Mon.Findings...)
		}
	})
	finishRun(rcx)
	for i := range rcx.Findings {
		f := &rcx.Findings[i]
		if f.Prop == "C16" {
			f.Prop = "C20"
		}
	}
}

// modeRoundTrip is the exhaustive pure-function part.
func modeRoundTrip(string) ([]Finding, map[string]interface{}) {
	var out []Finding
	types := []p9.FileMode{p9.ModeRegular, p9.ModeDirectory, p9.ModeSymlink, p9.ModeNamedPipe, p9.ModeCharacterDevice, p9.ModeBlockDevice, p9.ModeSocket}
	n := 0
	const keep = p9.FileModeMask | 0o7777
	for _, t := range types {
		for perm := p9.FileMode(0); perm < 0o10000; perm++ {
			m := t | perm
			n++
			back := p9.ModeFromOS(m.OSMode())
			if back&keep != m&keep && len(out) < 5 {
				out = append(out, Finding{Prop: "C20", Oracle: "mode-round-trip", Key: "mode-round-trip:p9->os->p9", Detail: fmt.Sprintf("FileMode %o -> os.FileMode %v -> FileMode %o", m, m.OSMode(), back)})
			}
			osm := m.OSMode()
			if p9.ModeFromOS(osm).OSMode() != osm && len(out) < 5 {
				out = append(out, Finding{Prop: "C20", Oracle: "mode-round-trip", Key: "mode-round-trip:os->p9->os", Detail: fmt.Sprintf("os.FileMode %v -> FileMode %o -> os.FileMode %v", osm, p9.ModeFromOS(osm), p9.ModeFromOS(osm).OSMode())})
			}
			wantDir := t == p9.ModeDirectory
			wantLnk := t == p9.ModeSymlink
			qt := m.QIDType()
			if (qt&p9.TypeDir != 0) != wantDir || (qt&p9.TypeSymlink != 0) != wantLnk {
				if len(out) < 5 {
					out = append(out, Finding{Prop: "C20", Oracle: "qid-type-of-mode", Key: "qid-type-of-mode", Detail: fmt.Sprintf("FileMode %o has QID type %#x", m, qt)})
				}
			}
		}
	}
	return out, map[string]interface{}{"mode_round_trip_exhaustive": map[string]interface{}{"cases": n, "note": "7 file types x 4096 permission values, both directions; a pure function enumerated completely in the parent process — not a simulation result", "exhaustive": true}}
}

func init() {
	Register(&Engine{
		ID:   "C20",
		Desc: "QID identity (localfs dev/ino, qids.Mapper, composefs under concurrent requests) and mode/type mapping",
		Run: func(rcx *RunCtx) {
			switch rcx.Index % 3 {
			case 0:
				c20Local(rcx)
			case 1:
				c20Mapper(rcx)
			default:
				c20Composed(rcx)
			}
		},
		Extra: modeRoundTrip,
		Quick: 32000, Thorough: 2400000, QuickSecs: 60, ThorSecs: 1200,
		Rule:  "three simulated parts in rotation, all with scheduling points at atomics and sync.Map operations: (a) 2-8 tasks x 10-50 lookups of (dev, ino) pairs from {0, 1, 0x801, majors/minors >= 2^12, high device bits, 2^64-1} x {0, 1, 2^39-1, 2^39, 2^39+1, 2^63, 2^64-1, neighbours} through the verif-tagged localfs export; (b) 2-8 tasks x 6-36 lookups of 1-6 source paths on one qids.Mapper, one run in 97 with 70000 or 140000 other sources looked up in between; (c) 1-3 connections x 1-3 pipelined client threads walking to, getattr-ing and clunking every path of a composefs (static mount, localfs mount on a temp dir, plain files) under the real server. Oracle: get-or-assign map model — the same key maps to the same path for good, different keys to different paths (checked on every observation of the concurrent history, which for this model is equivalent to linearizability against the sequential get-or-assign map); QID type = type of the mode; no runtime abort; the race-detector batch covers the mapper under concurrent requests. Plus, NOT a simulation: the exhaustive 7 x 4096 FileMode <-> os.FileMode round trip, run in the parent and reported separately.",
		Assume: []string{"process-global localfs state (qids, nextQid) persists across runs of a worker: the oracle is insensitive to absolute values"},
		Real:   []string{"fsimpl/localfs localToQid/encodeLikely", "fsimpl/qids Mapper/PathGenerator", "fsimpl/composefs", "fsimpl/staticfs", "p9.Server", "p9.FileMode conversions"},
		Stub:   []string{"transport (simnet)", "raw 9P peers (refcodec)"},
	})
}
