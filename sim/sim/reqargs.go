package sim

import (
	"bytes"
	"fmt"

	"github.com/hugelgupf/p9/p9"
	rc "github.com/hugelgupf/p9/zzverif/refcodec"
	"github.com/hugelgupf/p9/zzverif/simfs"
)

// checkRequestArgs compares the fields of a request (as the independent codec
// encoded them) with the arguments the backend actually received for it.  It
// is the T-direction half of the C01 oracle and the C18 "no carry-over"
// oracle.  The only rewriting allowed is the documented one: permission
// fields keep their low 12 bits (Tlcreate/Tmkdir/Tsetattr), uid is NoUID for
// the non-.u requests, a read count may be shortened to fit msize.
func checkRequestArgs(req rc.Message, calls []*simfs.Call) string {
	find := func(method string) *simfs.Call {
		for _, c := range calls {
			if c.Method == method {
				return c
			}
		}
		return nil
	}
	uidOf := func(u uint32, has bool) p9.UID {
		if !has {
			return p9.NoUID
		}
		return p9.UID(u)
	}
	switch m := req.(type) {
	case *rc.Twalk, *rc.Twalkgetattr:
		var names []string
		if w, ok := m.(*rc.Twalk); ok {
			names = w.Names
		} else {
			names = m.(*rc.Twalkgetattr).Names
		}
		var got []string
		for _, c := range calls {
			if c.Method == "Walk" || c.Method == "WalkGetAttr" {
				got = append(got, c.Names...)
			}
		}
		// a failing walk stops early: what was asked must be a prefix of the request
		if len(got) > len(names) {
			return fmt.Sprintf("backend was asked to walk %q, request names are %q", got, names)
		}
		for i := range got {
			if got[i] != names[i] {
				return fmt.Sprintf("backend was asked to walk %q, request names are %q", got, names)
			}
		}
	case *rc.Twrite:
		if c := find("WriteAt"); c != nil {
			if !bytes.Equal(c.Data, m.Data) || c.Offset != m.Offset {
				return fmt.Sprintf("WriteAt got %d bytes %x… at %d, request carries %d bytes %x… at %d", len(c.Data), head(c.Data), c.Offset, len(m.Data), head(m.Data), m.Offset)
			}
		}
	case *rc.Tread:
		if c := find("ReadAt"); c != nil {
			if c.Offset != m.Offset || c.Count > m.Count {
				return fmt.Sprintf("ReadAt(off %d, n %d) for Tread(off %d, count %d)", c.Offset, c.Count, m.Offset, m.Count)
			}
		}
	case *rc.Treaddir:
		if c := find("Readdir"); c != nil {
			if c.Offset != m.Offset || c.Count != m.Count {
				return fmt.Sprintf("Readdir(off %d, count %d) for Treaddir(off %d, count %d)", c.Offset, c.Count, m.Offset, m.Count)
			}
		}
	case *rc.Tgetattr:
		if c := find("GetAttr"); c != nil {
			if maskToRC(c.Mask) != m.Mask&rc.GetattrAll {
				return fmt.Sprintf("GetAttr mask %#x for Tgetattr mask %#x", maskToRC(c.Mask), m.Mask)
			}
		}
	case *rc.Tsetattr:
		if c := find("SetAttr"); c != nil {
			want := p9.SetAttr{Permissions: p9.FileMode(m.Mode & 0o7777), UID: p9.UID(m.UID), GID: p9.GID(m.GID), Size: m.Size,
				ATimeSeconds: m.ATimeSec, ATimeNanoSeconds: m.ATimeNsec, MTimeSeconds: m.MTimeSec, MTimeNanoSeconds: m.MTimeNsec}
			if setMaskToRC(c.SetMask) != m.Valid&rc.SetattrAll || c.SetAttr != want {
				return fmt.Sprintf("SetAttr(valid %#x, %+v) for %s", setMaskToRC(c.SetMask), c.SetAttr, rc.String(m))
			}
		}
	case *rc.Tlopen:
		if c := find("Open"); c != nil && c.Flags != m.Flags {
			return fmt.Sprintf("Open flags %#x for Tlopen flags %#x", c.Flags, m.Flags)
		}
	case *rc.Tlcreate:
		if c := find("Create"); c != nil {
			if c.Name != m.Name || c.Flags != m.Flags || c.Mode != p9.FileMode(m.Mode&0o7777) || c.GID != p9.GID(m.GID) || c.UID != p9.NoUID {
				return fmt.Sprintf("Create(%q flags %#x mode %o uid %d gid %d) for %s", c.Name, c.Flags, c.Mode, c.UID, c.GID, rc.String(m))
			}
		}
	case *rc.Tucreate:
		if c := find("Create"); c != nil {
			if c.Name != m.Name || c.Flags != m.Flags || c.Mode != p9.FileMode(m.Mode&0o7777) || c.GID != p9.GID(m.GID) || c.UID != uidOf(m.UID, true) {
				return fmt.Sprintf("Create(%q flags %#x mode %o uid %d gid %d) for %s", c.Name, c.Flags, c.Mode, c.UID, c.GID, rc.String(m))
			}
		}
	case *rc.Tmkdir:
		if c := find("Mkdir"); c != nil {
			if c.Name != m.Name || c.Mode != p9.FileMode(m.Mode&0o7777) || c.GID != p9.GID(m.GID) || c.UID != p9.NoUID {
				return fmt.Sprintf("Mkdir(%q mode %o uid %d gid %d) for %s", c.Name, c.Mode, c.UID, c.GID, rc.String(m))
			}
		}
	case *rc.Tumkdir:
		if c := find("Mkdir"); c != nil {
			if c.Name != m.Name || c.Mode != p9.FileMode(m.Mode&0o7777) || c.GID != p9.GID(m.GID) || c.UID != p9.UID(m.UID) {
				return fmt.Sprintf("Mkdir(%q mode %o uid %d gid %d) for %s", c.Name, c.Mode, c.UID, c.GID, rc.String(m))
			}
		}
	case *rc.Tsymlink:
		if c := find("Symlink"); c != nil {
			if c.Name != m.Name || c.Name2 != m.Target || c.GID != p9.GID(m.GID) || c.UID != p9.NoUID {
				return fmt.Sprintf("Symlink(%q -> %q uid %d gid %d) for %s", c.Name, c.Name2, c.UID, c.GID, rc.String(m))
			}
		}
	case *rc.Tusymlink:
		if c := find("Symlink"); c != nil {
			if c.Name != m.Name || c.Name2 != m.Target || c.GID != p9.GID(m.GID) || c.UID != p9.UID(m.UID) {
				return fmt.Sprintf("Symlink(%q -> %q uid %d gid %d) for %s", c.Name, c.Name2, c.UID, c.GID, rc.String(m))
			}
		}
	case *rc.Tmknod:
		if c := find("Mknod"); c != nil {
			if c.Name != m.Name || c.Mode != p9.FileMode(m.Mode) || c.Major != m.Major || c.Minor != m.Minor || c.GID != p9.GID(m.GID) || c.UID != p9.NoUID {
				return fmt.Sprintf("Mknod(%q mode %o %d:%d uid %d gid %d) for %s", c.Name, c.Mode, c.Major, c.Minor, c.UID, c.GID, rc.String(m))
			}
		}
	case *rc.Tumknod:
		if c := find("Mknod"); c != nil {
			if c.Name != m.Name || c.Mode != p9.FileMode(m.Mode) || c.Major != m.Major || c.Minor != m.Minor || c.GID != p9.GID(m.GID) || c.UID != p9.UID(m.UID) {
				return fmt.Sprintf("Mknod(%q mode %o %d:%d uid %d gid %d) for %s", c.Name, c.Mode, c.Major, c.Minor, c.UID, c.GID, rc.String(m))
			}
		}
	case *rc.Tlink:
		if c := find("Link"); c != nil && c.Name != m.Name {
			return fmt.Sprintf("Link(%q) for %s", c.Name, rc.String(m))
		}
	case *rc.Tunlinkat:
		if c := find("UnlinkAt"); c != nil && (c.Name != m.Name || c.Flags != m.Flags) {
			return fmt.Sprintf("UnlinkAt(%q, %#x) for %s", c.Name, c.Flags, rc.String(m))
		}
	case *rc.Trenameat:
		if c := find("RenameAt"); c != nil && (c.Name != m.OldName || c.Name2 != m.NewName) {
			return fmt.Sprintf("RenameAt(%q -> %q) for %s", c.Name, c.Name2, rc.String(m))
		}
	case *rc.Trename:
		if c := find("RenameAt"); c != nil && c.Name2 != m.Name {
			return fmt.Sprintf("RenameAt(-> %q) for %s", c.Name2, rc.String(m))
		}
	case *rc.Txattrwalk:
		if c := find("GetXattr"); c != nil && c.Name != m.Name {
			return fmt.Sprintf("GetXattr(%q) for %s", c.Name, rc.String(m))
		}
	case *rc.Tlock:
		if c := find("Lock"); c != nil {
			// proc_id is four bytes on the wire and an int at the File: the
			// same 32 bits (whether a raw peer's 2^31 is a negative pid is
			// not for this check to say; a client's -1 staying -1 is C03's)
			want := [6]uint64{c.LockArgs[0], uint64(m.Type), uint64(m.Flags), m.Start, m.Length, 0}
			if uint32(c.LockArgs[0]) != m.ProcID || c.LockArgs != want || c.Client != m.ClientID {
				return fmt.Sprintf("Lock(%v, %q) for %s", c.LockArgs, c.Client, rc.String(m))
			}
		}
	}
	return ""
}

func head(b []byte) []byte {
	if len(b) > 8 {
		return b[:8]
	}
	return b
}
