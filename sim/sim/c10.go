package sim

import (
	"fmt"

	"github.com/hugelgupf/p9/p9"
	rc "github.com/hugelgupf/p9/zzverif/refcodec"
	"github.com/hugelgupf/p9/zzverif/simnet"
	"github.com/hugelgupf/p9/zzverif/simrt"
)

// C10 — client multiplexing (engine E2: real p9.Client, fake server).

// fault kinds injected by the fake server / transport
const (
	fNone = iota
	fCloseMidReply // part of a reply, then EOF
	fReadError     // the client's read fails with a non-EOF error
	fCloseIdle     // EOF between frames
	fWriteError    // the client's n-th write fails
	fBad0          // bad frames: BadFrame kinds 0..6 follow
)

// the program itself closes the Client while calls are in flight
const fClientClose = fBad0 + 7

const nFaultKinds = fBad0 + 8

func faultName(k int) string {
	switch k {
	case fNone:
		return "none"
	case fCloseMidReply:
		return "close-mid-reply"
	case fReadError:
		return "read-error"
	case fCloseIdle:
		return "close-between-frames"
	case fWriteError:
		return "write-error"
	case fClientClose:
		return "client-closed-by-another-goroutine"
	}
	_, n := BadFrame(k-fBad0, 1, 8192)
	return "bad-frame: " + n
}

// inject performs fault kind k on the connection; r is a pending request to
// sacrifice where one is needed.
func (cw *cliWorld) inject(k int, r *fsReq) {
	f := cw.Fake
	cw.faulted = true
	f.broken = true // from here on the wire-level fid/tag oracles are off
	cw.faultStep = simrt.Steps()
	simrt.Fault("client-side." + faultName(k))
	simrt.Event("INJECT %s (requests so far %d, s2c consumed %d written %d)", faultName(k), len(f.Reqs), f.Net.S2C.Consumed(), f.Net.S2C.Written())
	if !cw.dead {
		cw.deadSeq = len(f.Reqs) // if this fault kills the connection: requests from here on are "later calls"
	}
	switch {
	case k == fCloseMidReply:
		var b []byte
		if r != nil {
			b = rc.Encode(r.Frame.Tag, f.DefaultReply(r))
		} else {
			b = rc.Encode(7, &rc.Rclunk{})
		}
		cut := 1 + simrt.Choose(len(b)-1)
		f.broken = true
		f.Net.B.Write(b[:cut])
		f.Net.S2C.CloseWrite()
		cw.dead = true
	case k == fReadError:
		f.Net.S2C.ReadErrAt = f.Net.S2C.Consumed() + int64(simrt.Choose(5))
		cw.dead = true
		f.broken = true
		if r != nil {
			f.Net.B.Write(rc.Encode(r.Frame.Tag, f.DefaultReply(r)))
		}
	case k == fCloseIdle:
		f.Net.S2C.CloseWrite()
		cw.dead = true
	case k == fWriteError:
		// armed now; the connection counts as dead once a write has actually failed
		f.Net.C2S.WriteErrAfter = f.Net.C2S.Writes + simrt.Choose(4)
	case k == fClientClose:
		// every pending and every later call returns an error; none hangs
		cw.dead = true
		cl := cw.Client
		simrt.GoNamed("closer", func() {
			simrt.Current().Role = "caller"
			cl.Close()
		})
	case k >= fBad0:
		tag := uint16(1)
		if r != nil {
			tag = r.Frame.Tag
		}
		b, _ := BadFrame(k-fBad0, tag, cw.Fake.maxFrame)
		if k-fBad0 == 2 && r != nil {
			// a reply type that is certainly not the one r expects
			if _, isStat := r.Msg.(*rc.Tstatfs); isStat {
				b = rc.Encode(tag, &rc.Rgetattr{})
			}
		}
		f.SendRaw(b)
		if k-fBad0 == 3 || k-fBad0 == 4 {
			// a bad size field desynchronises the stream: end it
			f.Net.S2C.CloseWrite()
			cw.dead = true
			return
		}
		cw.postBad = true
		if bk := k - fBad0; bk != 6 {
			// Garbage, an unknown tag, a wrong reply type: "the calls pending
			// at that moment return an error".  The server has nothing more
			// to say to them - a client that kept one waiting shows as a
			// hang.  (An Rread whose count exceeds its payload is left out:
			// whether a client can accept it is its own business.)
			cw.rcx.Count("client.pending_at_bad_frame", len(f.pend))
			f.pend = nil
		}
	}
}

type c10Directed struct {
	n     int
	perm  []int
	fault int
}

var c10Catalogue []c10Directed

func init() {
	var perms func(a []int, k int, out *[][]int)
	perms = func(a []int, k int, out *[][]int) {
		if k == len(a) {
			*out = append(*out, append([]int{}, a...))
			return
		}
		for i := k; i < len(a); i++ {
			a[k], a[i] = a[i], a[k]
			perms(a, k+1, out)
			a[k], a[i] = a[i], a[k]
		}
	}
	for n := 1; n <= 4; n++ {
		a := make([]int, n)
		for i := range a {
			a[i] = i
		}
		var ps [][]int
		perms(a, 0, &ps)
		for _, p := range ps {
			for f := 0; f < nFaultKinds; f++ {
				c10Catalogue = append(c10Catalogue, c10Directed{n, p, f})
			}
		}
	}
}

func runC10(rcx *RunCtx) {
	cfg := simCfg(rcx)
	p := rcx.Plan
	if k := rcx.Index - len(c10Catalogue); k >= 0 && k < c10ExhaustKinds {
		runC10Exhaust(rcx, k)
		return
	}
	var dir *c10Directed
	if rcx.Index < len(c10Catalogue) {
		dir = &c10Catalogue[rcx.Index]
	}
	ncallers := 2 + p.Choose(7)
	if p.Choose(8) == 0 {
		ncallers = 8 + p.Choose(25)
	}
	nops := 3 + p.Choose(14)
	faultKind := fNone
	if p.Choose(2) == 0 {
		faultKind = 1 + p.Choose(nFaultKinds-1)
	}
	faultAfter := p.Choose(ncallers*nops + 1)
	ver := 7 - p.Choose(8)
	msize := []uint32{8192, 4096, 65536, 1024}[p.Choose(4)]
	errPct := []int{0, 5, 25}[p.Choose(3)]
	seg := []int{simnet.SegWhole, simnet.SegRandom, simnet.SegByte}[p.Choose(3)]
	if dir != nil {
		ncallers, nops, faultKind, errPct = dir.n, 1, dir.fault, 0
		rcx.Label = fmt.Sprintf("directed n=%d fault=%s", dir.n, faultName(dir.fault))
	} else {
		rcx.Label = fmt.Sprintf("random fault=%s", faultName(faultKind))
	}
	cw := &cliWorld{rcx: rcx, prop: "C10"}
	rcx.Res = simrt.Run(cfg, rcx.Sched, func() {
		fake := NewFakeSrv("cli")
		cw.Fake = fake
		fake.Version = versionStr(ver)
		fake.ErrPct = errPct
		fake.maxFrame = msize
		fake.Net.S2C.Seg = seg
		answered := 0
		injected := false
		hook := func(f *FakeSrv) bool {
			if f.Net.C2S.WriteErrors > 0 && !f.Net.S2C.WriteClosed() {
				// a connection whose writes fail is dead in both directions
				cw.dead, cw.deadSeq = true, len(f.Reqs)
				f.Net.S2C.CloseWrite()
				return true
			}
			if dir != nil {
				// wait until every caller's request is in, then answer in the permuted order
				callers := 0
				for _, r := range f.pend {
					if _, ok := r.Msg.(*rc.Tgetattr); ok {
						callers++
					}
				}
				if callers > 0 && callers+answered < dir.n {
					simrt.Block("fakesrv: collect batch", func() bool {
						c := 0
						for _, r := range f.pend {
							if _, ok := r.Msg.(*rc.Tgetattr); ok {
								c++
							}
						}
						return c+answered >= dir.n || f.stop
					})
					return true
				}
				if callers > 0 {
					// pending getattrs in arrival order; pick per permutation
					var batch []*fsReq
					for _, r := range f.Reqs {
						if _, ok := r.Msg.(*rc.Tgetattr); ok {
							batch = append(batch, r)
						}
					}
					if len(batch) < dir.n {
						return false
					}
					r := batch[dir.perm[answered]]
					if dir.fault != fNone && answered == len(dir.perm)/2 && !injected {
						injected = true
						cw.inject(dir.fault, r)
						if cw.dead {
							return true
						}
					}
					if !r.Answered {
						f.Respond(r)
					}
					answered++
					return true
				}
				return false
			}
			if faultKind != fNone && !injected && len(f.Reqs) >= faultAfter+3 {
				injected = true
				var r *fsReq
				if len(f.pend) > 0 {
					r = f.pend[simrt.Choose(len(f.pend))]
				}
				cw.inject(faultKind, r)
				return true
			}
			if cw.dead {
				// nothing more will get through; keep the responder parked.  A
				// connection whose writes fail is dead in both directions.
				simrt.Block("fakesrv: dead", func() bool { return f.stop })
				return true
			}
			return false
		}
		simrt.GoNamed("fakesrv", func() { fake.Serve(hook) })
		cl, err := p9.NewClient(fake.Net.A, p9.WithMessageSize(msize))
		if err != nil {
			cw.find("setup", "newclient", "NewClient failed: %v", err)
			fake.Stop()
			return
		}
		cw.Client = cl
		root, err := cl.Attach("")
		if err != nil {
			if !cw.faulted {
				cw.find("setup", "attach", "Attach failed: %v", err)
			}
			cw.shutdown()
			return
		}
		cw.hold(root)
		done := 0
		for i := 0; i < ncallers; i++ {
			i := i
			simrt.GoNamed(fmt.Sprintf("caller%d", i), func() {
				simrt.Current().Role = "caller"
				files := []p9.File{root}
				for k := 0; k < nops; k++ {
					cw.inCall.Set(simrt.Current(), len(fake.Reqs))
					if dir != nil {
						from := len(fake.Reqs)
						q, v, a, err := root.GetAttr(p9.AttrMaskAll)
						cw.inCall.Del(simrt.Current())
						cw.judge("GetAttr", from, err, func(rep rc.Message) string {
							r, ok := rep.(*rc.Rgetattr)
							if !ok {
								return "reply type " + rc.String(rep)
							}
							return first(diff("QID", q, qidFromRC(r.QID)), diff("valid", v, maskFromRC(r.Valid)), diff("attr", a, attrFromRC(r.Attr)))
						})
						continue
					}
					cw.doOp(simrt.Choose, &files, false)
					cw.inCall.Del(simrt.Current())
				}
				done++
			})
		}
		simrt.Block("callers done", func() bool { return done == ncallers })
		simrt.Join()
		// every call returned: no hang.  What the server still has pending was
		// abandoned by callers that were failed by a fault.
		if !cw.faulted {
			for _, r := range fake.Pending() {
				cw.find("request-never-answered", "pending", "request %s still pending although all callers returned and no fault was injected", r.Frame)
			}
		}
		cw.shutdown()
		rcx.Findings = append(rcx.Findings, fake.Findings...)
		rcx.Findings = append(rcx.Findings, fake.Mon.Findings...)
	})
	rcx.Count("client.calls", cw.ncalls)
	rcx.Count("client.calls_failed", cw.nfailed)
	if cw.Fake != nil {
		rcx.Count("requests", len(cw.Fake.Reqs))
	}
	rcx.Sample = map[string]interface{}{"callers": ncallers, "ops_per_caller": nops, "fault": faultName(faultKind), "version": ver, "msize": msize, "server_error_pct": errPct, "reply_segmentation": seg, "directed": dir != nil}
	finishRun(rcx)
	for i := range rcx.Findings {
		f := &rcx.Findings[i]
		if f.Prop == "C16" && (f.Oracle == "deadlock" || f.Oracle == "livelock") {
			f.Prop, f.Oracle, f.Key = "C10", "call-hang", "call-hang:"+faultName(faultKind)
			f.Detail = "a client call never returned (" + faultName(faultKind) + "): " + f.Detail
		}
		if f.Prop == "C16" && f.Oracle == "task-panic" {
			f.Prop = "C10"
		}
	}
}

func init() {
	Register(&Engine{
		ID:   "C10",
		Desc: "client multiplexing: distinct tags/fids, replies reach their own caller, no hang on faults",
		Run:  runC10,
		Directed: func(string) int { return len(c10Catalogue) + c10ExhaustKinds },
		Quick:    48000, Thorough: 4000000, QuickSecs: 60, ThorSecs: 1500,
		Rule:  fmt.Sprintf("directed: batches of 1-4 concurrent calls x EVERY reply permutation x %d fault kinds (none; reply cut mid-frame then EOF; read error; EOF between frames; client write error; Client.Close by another goroutine; bad frames: short body, unknown tag, wrong reply type, size<7, size>msize, unknown type, Rread count>payload) injected at the middle of the batch; allocator exhaustion: all but 1 or 3 of the 65534 tags / 4294967294 fids declared held through the verif seam p9/verif_pool.go, then 3 more concurrent calls than values are left (nothing reserved or duplicated may reach the wire, no call hangs); random: 2-32 caller goroutines x 3-16 calls over 26 client operations (incl. fid-allocating Attach/Walk/WalkGetAttr/GetXattr and fid-releasing Close/Remove) on shared and private Files, replies in tape order, server Rlerror rate 0/5/25%%, one fault at a tape-chosen request count, reply stream segmented whole/random/bytewise. Oracles: on the wire — outstanding tags pairwise distinct and not NOTAG, a fid-binding request never names NOFID nor a fid the server still has bound or is binding; per call — returned values equal the nonce-derived reply generated FOR THAT REQUEST, or its errno; after a break every pending and later call fails, after a bad frame the pending ones fail; no call hangs (quiescence with an unfinished caller).", nFaultKinds),
		Assume: []string{"after the fake server has itself violated the protocol, fid recycling is judged no further than 'error, no hang'"},
		Real:   []string{"p9.Client (tag/fid pools, pending map, recv arbitration)", "p9 client files", "p9 wire codec"},
		Stub:   []string{"transport (simnet pipes)", "fake 9P server (refcodec)"},
		Owns:   []string{"C01", "C13"},
	})
}
