// Package sim holds the simulation harness: worlds (server/client/peers on
// the simulated transport and backend), monitors, reference models and the
// per-property engines.
package sim

import (
	"fmt"

	"github.com/hugelgupf/p9/zzverif/refcodec"
	"github.com/hugelgupf/p9/zzverif/simnet"
	"github.com/hugelgupf/p9/zzverif/simrt"
)

// Finding is a property violation observed by an oracle.
type Finding struct {
	Prop   string `json:"prop"`
	Oracle string `json:"oracle"`
	Detail string `json:"detail"`
	// Key identifies the violation class for shrinking and known-findings
	// (oracle plus the site, without run-specific numbers).
	Key string `json:"key"`
}

func (f Finding) String() string {
	return fmt.Sprintf("%s/%s: %s", f.Prop, f.Oracle, f.Detail)
}

// FrameRec is one frame seen on a stream.
type FrameRec struct {
	Idx     int
	Start   int64
	Size    uint32
	Type    uint8
	Tag     uint16
	Msg     refcodec.Message
	Class   refcodec.Class
	Raw     []byte
	Writers []*simrt.Task
	Step    int // scheduler step at which the frame was complete
	Reader  *simrt.Task
	ReadAt  int // step at which its last byte was consumed (-1 not yet)
	// request bookkeeping (filled by the connection tracker)
	Reply    *FrameRec
	NReplies int
	TagBusy  bool // tag was already in flight when this request was sent
	Intent   string
}

func (f *FrameRec) String() string {
	if f.Msg != nil {
		return fmt.Sprintf("[tag %d] %s", f.Tag, refcodec.String(f.Msg))
	}
	return fmt.Sprintf("[tag %d] type=%d size=%d class=%s", f.Tag, f.Type, f.Size, f.Class)
}

// StreamMon reassembles the frames of one direction from the bytes written
// into a pipe.
type StreamMon struct {
	Name     string
	buf      []byte
	writers  []*simrt.Task
	start    int64
	Frames   []*FrameRec
	LostSync bool
	MaxFrame uint32 // reassembly refuses frames above this (stream treated as garbage)
	OnFrame  func(*FrameRec)
	KeepRaw  bool
	Bytes    int64
}

func (m *StreamMon) addWriter(t *simrt.Task) {
	for _, w := range m.writers {
		if w == t {
			return
		}
	}
	m.writers = simrt.Push(m.writers, t)
}

func (m *StreamMon) feed(t *simrt.Task, b []byte) {
	m.Bytes += int64(len(b))
	if m.LostSync {
		return
	}
	for len(b) > 0 {
		// how many bytes does the current frame still need?
		need := refcodec.HeaderLen - len(m.buf)
		if len(m.buf) >= refcodec.HeaderLen {
			size, _, _ := refcodec.ParseHeader(m.buf)
			need = int(size) - len(m.buf)
		}
		n := need
		if n > len(b) {
			n = len(b)
		}
		if n > 0 {
			m.buf = append(m.buf, b[:n]...)
			m.addWriter(t)
			b = b[n:]
		}
		if len(m.buf) < refcodec.HeaderLen {
			return
		}
		size, typ, tag := refcodec.ParseHeader(m.buf)
		if size < refcodec.HeaderLen || (m.MaxFrame > 0 && size > m.MaxFrame) {
			m.LostSync = true
			f := &FrameRec{Idx: len(m.Frames), Start: m.start, Size: size, Type: typ, Tag: tag, Class: refcodec.Malformed, Writers: m.writers, Step: simrt.Steps(), ReadAt: -1}
			m.Frames = simrt.Push(m.Frames, f)
			if m.OnFrame != nil {
				m.OnFrame(f)
			}
			return
		}
		if len(m.buf) < int(size) {
			if len(b) == 0 {
				return
			}
			continue
		}
		f := &FrameRec{Idx: len(m.Frames), Start: m.start, Size: size, Type: typ, Tag: tag, Writers: m.writers, Step: simrt.Steps(), ReadAt: -1}
		f.Msg, f.Class = refcodec.DecodeBody(typ, m.buf[refcodec.HeaderLen:])
		if m.KeepRaw {
			f.Raw = append([]byte{}, m.buf...)
		}
		m.Frames = simrt.Push(m.Frames, f)
		m.start += int64(size)
		m.buf = m.buf[:0]
		m.writers = nil
		if m.OnFrame != nil {
			m.OnFrame(f)
		}
	}
}

// FrameAt returns the frame containing stream offset off.
func (m *StreamMon) FrameEndingAt(end int64) *FrameRec {
	for i := len(m.Frames) - 1; i >= 0; i-- {
		f := m.Frames[i]
		if f.Start+int64(f.Size) == end {
			return f
		}
		if f.Start+int64(f.Size) < end {
			return nil
		}
	}
	return nil
}

// ConnMon watches both directions of one connection and enforces the
// per-connection wire invariants (C01 layout, C06 contiguity and reply
// matching, C13 msize).
type ConnMon struct {
	Name     string
	Req      *StreamMon // client -> server
	Rep      *StreamMon // server -> client
	Msize    uint32     // announced by the last Rversion (0 = none yet)
	Findings []Finding
	// inflight: tag -> request frame awaiting its reply
	inflight simrt.PMap[uint16, *FrameRec]
	// CheckReplies enables the C06 reply-matching oracle (server under test).
	CheckReplies bool
	// CheckReqMsize enables the client-side msize oracle (client under test).
	CheckReqMsize bool
	conn          *simnet.Conn
	Unsolicited   int
	// OnReply is called for each reply frame after matching.
	OnReply func(req, rep *FrameRec)
	// OnRequestRead is called when a server task has consumed a whole request.
	OnRequestRead func(req *FrameRec)
}

func NewConnMon(name string, c *simnet.Conn) *ConnMon {
	m := &ConnMon{Name: name, conn: c}
	liveMons = append(liveMons, m)
	m.Req = &StreamMon{Name: name + ".req", KeepRaw: false}
	m.Rep = &StreamMon{Name: name + ".rep", KeepRaw: false}
	m.Req.OnFrame = m.onReq
	m.Rep.OnFrame = m.onRep
	c.C2S.Obs = m
	c.S2C.Obs = m
	return m
}

func (m *ConnMon) find(prop, oracle, key, format string, args ...interface{}) {
	f := Finding{Prop: prop, Oracle: oracle, Detail: m.Name + ": " + fmt.Sprintf(format, args...), Key: oracle + ":" + key}
	m.Findings = simrt.Push(m.Findings, f)
	simrt.Event("VIOLATION %s", f)
}

// Wrote implements simnet.Observer.
func (m *ConnMon) Wrote(p *simnet.Pipe, t *simrt.Task, b []byte) {
	if p == m.conn.C2S {
		m.Req.feed(t, b)
	} else {
		m.Rep.feed(t, b)
	}
}

// ReadIssued implements simnet.Observer.
func (m *ConnMon) ReadIssued(p *simnet.Pipe, t *simrt.Task, buflen int) {}

// Consumed implements simnet.Observer: request attribution.
func (m *ConnMon) Consumed(p *simnet.Pipe, t *simrt.Task, n int) {
	if p != m.conn.C2S || t == nil {
		return
	}
	if f := m.Req.FrameEndingAt(p.Consumed()); f != nil {
		f.Reader = t
		f.ReadAt = simrt.Steps()
		t.Local.Set("inherit.req", f)
		if m.OnRequestRead != nil {
			m.OnRequestRead(f)
		}
	}
}

func (m *ConnMon) onReq(f *FrameRec) {
	if simrt.Tracing() {
		simrt.Event("%s >> %s", m.Name, f)
	}
	if m.CheckReqMsize && m.Msize > 0 && f.Size > m.Msize {
		m.find("C13", "request-exceeds-msize", refcodec.TypeName(f.Type), "request %s is %d bytes, server announced msize %d", f, f.Size, m.Msize)
	}
	if m.CheckReqMsize && f.Class != refcodec.Exact {
		m.find("C01", "request-layout", refcodec.TypeName(f.Type), "client emitted a frame that is not laid out per spec: %s", f)
	}
	if m.inflight.Has(f.Tag) {
		f.TagBusy = true
		return
	}
	if f.Class == refcodec.Exact || f.Class == refcodec.Trailing || f.Class == refcodec.UnknownType || f.Class == refcodec.Malformed {
		m.inflight.Set(f.Tag, f)
	}
}

func (m *ConnMon) onRep(f *FrameRec) {
	if simrt.Tracing() {
		simrt.Event("%s << %s", m.Name, f)
	}
	if len(f.Writers) > 1 {
		m.find("C06", "interleaved-reply", "frame", "reply frame %s contains bytes written by %d different tasks", f, len(f.Writers))
	}
	if m.CheckReplies {
		if f.Class != refcodec.Exact {
			m.find("C01", "reply-layout", refcodec.TypeName(f.Type), "server emitted a frame that is not laid out per spec: %s (%s)", f, f.Class)
		}
		if f.Type == refcodec.TypeRversion && f.Msg != nil {
			m.Msize = f.Msg.(*refcodec.Rversion).Msize
		}
		if m.Msize > 0 && f.Size > m.Msize && (f.Type == refcodec.TypeRread || f.Type == refcodec.TypeRreaddir) {
			m.find("C13", "reply-exceeds-msize", refcodec.TypeName(f.Type), "reply %s is %d bytes, announced msize %d", f, f.Size, m.Msize)
		}
	} else if f.Type == refcodec.TypeRversion && f.Msg != nil {
		m.Msize = f.Msg.(*refcodec.Rversion).Msize
	}
	req := m.inflight.Get(f.Tag)
	if req == nil && f.Tag == refcodec.NoTag {
		// reply to an undecodable frame that does not say which: the oldest
		// unanswered frame of a known type with a bad body (a receiver may
		// give up on the header of such a frame), else the oldest unanswered
		// frame of an unknown type
		for _, want := range []refcodec.Class{refcodec.Malformed, refcodec.UnknownType} {
			for _, r := range m.Req.Frames {
				if r.Reply == nil && !r.TagBusy && r.Class == want {
					req = r
					break
				}
			}
			if req != nil {
				break
			}
		}
	}
	if req == nil {
		m.Unsolicited++
		if m.CheckReplies {
			m.find("C06", "unsolicited-reply", "frame", "reply %s has no unanswered request", f)
		}
		return
	}
	m.inflight.Del(req.Tag)
	req.Reply = f
	req.NReplies++
	if m.CheckReplies && req.Class == refcodec.Exact {
		if f.Type != refcodec.TypeRlerror && f.Type != refcodec.ReplyType(req.Type) {
			m.find("C06", "wrong-reply-type", refcodec.TypeName(req.Type), "request %s answered by %s", req, f)
		}
	}
	if m.OnReply != nil {
		m.OnReply(req, f)
	}
}

// Unanswered returns decodable requests (tag free when sent) that have no reply.
func (m *ConnMon) Unanswered() []*FrameRec {
	var out []*FrameRec
	for _, r := range m.Req.Frames {
		if r.Reply == nil && !r.TagBusy && r.Class == refcodec.Exact && refcodec.IsT(r.Type) {
			out = append(out, r)
		}
	}
	return out
}
