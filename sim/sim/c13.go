package sim

import (
	"fmt"

	rc "github.com/hugelgupf/p9/zzverif/refcodec"
	"github.com/hugelgupf/p9/zzverif/simfs"
	"github.com/hugelgupf/p9/zzverif/simrt"
)

// C13 — the negotiated msize is never exceeded.  Server side: msize x
// Tread/Treaddir count x file / directory size on both sides of the limit.
// The <= msize invariant itself lives in the wire monitor and is active in
// every run of every engine; this engine drives the boundary cases.

var c13Msizes = []uint32{24, 64, 154, 155, 512, 4096, 8192, 65536, 1 << 20, 4 << 20}

func c13Counts(msize uint32) []uint32 {
	var out []uint32
	for _, d := range []int64{-24, -13, -12, -11, -10, -1, 0, 1, 11} {
		v := int64(msize) + d
		if v >= 0 {
			out = append(out, uint32(v))
		}
	}
	return append(out, 0, 1, 4<<20, 4<<20+1, 1<<31, 0xFFFFFFFF)
}

func c13Cases() int { return len(c13Msizes) * 16 * 2 }

func runC13(rcx *RunCtx) {
	if rcx.Index >= c13Cases() && rcx.Index%2 == 1 {
		runC13Client(rcx)
		return
	}
	cfg := simCfg(rcx)
	var msize, count uint32
	var dir bool
	if rcx.Index < c13Cases() {
		k := rcx.Index
		dir = k%2 == 1
		k /= 2
		msize = c13Msizes[k%len(c13Msizes)]
		cs := c13Counts(msize)
		count = cs[(k/len(c13Msizes))%len(cs)]
		rcx.Label = "server boundary"
	} else {
		p := rcx.Plan
		msize = c13Msizes[p.Choose(len(c13Msizes))] + uint32(p.Choose(40))
		cs := c13Counts(msize)
		count = cs[p.Choose(len(cs))] + uint32(p.Choose(5))
		dir = p.Choose(2) == 1
		rcx.Label = "server random"
	}
	offset := uint64(rcx.Plan.Choose(3))
	big := rcx.Plan.Choose(4) != 0
	rcx.Sample = map[string]interface{}{"msize": msize, "count": count, "directory": dir, "content_larger_than_msize": big, "offset": offset}
	rcx.Res = simrt.Run(cfg, rcx.Sched, func() {
		fs := simfs.New()
		fs.KeepCalls = true
		n := fs.MkPath("/f")
		fs.MkPath("/d/")
		size := 100
		nent := 3
		if big {
			size = int(msize) + 4096
			if size > 5<<20 {
				size = 5 << 20
			}
			nent = int(msize)/30 + 50
		}
		n.Data = make([]byte, size)
		for i := range n.Data {
			n.Data[i] = byte(i*7 + 1)
		}
		fs.Lookup("/d").Synth = nent
		w := NewWorld(nil, fs)
		c := w.Connect()
		rv := c.Negotiate(msize, "9P2000.L.Google.7")
		if rv == nil || rv.Msize == 0 {
			rcx.Find("C13", "setup", "negotiate", "negotiation failed")
			return
		}
		if _, ok := c.Attach(0, "").(*rc.Rattach); !ok {
			rcx.Trivial = true // msize too small to do anything
			w.Shutdown()
			rcx.Findings = append(rcx.Findings, w.Findings...)
			return
		}
		path := "/f"
		var fl uint32 = 0
		if dir {
			path = "/d"
		}
		if !c.WalkTo(0, 1, path) || Errno(c.RPC(&rc.Tlopen{Fid: 1, Flags: fl})) != 0 {
			rcx.Trivial = true
			w.Shutdown()
			rcx.Findings = append(rcx.Findings, w.Findings...)
			return
		}
		var req *FrameRec
		if dir {
			req = c.Send(c.Tag(), &rc.Treaddir{Fid: 1, Offset: offset, Count: count})
		} else {
			req = c.Send(c.Tag(), &rc.Tread{Fid: 1, Offset: offset, Count: count})
		}
		simrt.WaitQuiescent()
		if req.Reply == nil {
			rcx.Find("C13", "no-reply", "read", "%s not answered", req)
		} else {
			rep := req.Reply
			// the frame-size invariant is checked by the wire monitor; here: the
			// reply is a (shortened) data reply or an error, and what it carries is right
			switch m := rep.Msg.(type) {
			case *rc.Rread:
				if uint32(len(m.Data)) > count {
					rcx.Find("C13", "more-than-asked", "Rread", "Rread carries %d bytes for count %d", len(m.Data), count)
				}
				for i, b := range m.Data {
					if b != byte((int(offset)+i)*7+1) {
						rcx.Find("C13", "wrong-data", "Rread", "Rread byte %d is %d, file has %d", i, b, byte((int(offset)+i)*7+1))
						break
					}
				}
				if count > 0 && len(m.Data) == 0 && int(offset) < size && rv.Msize >= 64 {
					rcx.Find("C13", "empty-read", "Rread", "Tread count %d at offset %d of a %d-byte file returned no data (msize %d)", count, offset, size, rv.Msize)
				}
			case *rc.Rreaddir:
				ds, ok := rc.DecodeDirents(m.Data)
				if !ok {
					rcx.Find("C13", "broken-entries", "Rreaddir", "Rreaddir data is not a sequence of whole entries")
				}
				if uint32(len(m.Data)) > count {
					rcx.Find("C13", "more-than-asked", "Rreaddir", "Rreaddir carries %d bytes for count %d", len(m.Data), count)
				}
				for i, e := range ds {
					if want := fmt.Sprintf("e%05d", int(offset)+i); e.Name != want {
						rcx.Find("C13", "wrong-entries", "Rreaddir", "entry %d is %q, want %q", i, e.Name, want)
						break
					}
				}
			case *rc.Rlerror:
				// allowed ("shortened or Rlerror")
				rcx.Count("answered_with_rlerror", 1)
			default:
				rcx.Find("C13", "wrong-reply", "read", "%s answered by %s", req, rep)
			}
		}
		// the same count against an extended attribute whose value is larger
		// than a message: the xattr fid's Rread obeys the same limit (the
		// wire monitor checks every Rread against the announced msize)
		if !dir && big && len(rcx.Findings) == 0 && rv.Msize >= 256 && size <= 1<<20 {
			n.SetXattrDirect("user.big", n.Data)
			xw := c.Send(c.Tag(), &rc.Txattrwalk{Fid: 1, NewFid: 5, Name: "user.big"})
			simrt.WaitQuiescent()
			if xw.Reply != nil {
				if _, ok := xw.Reply.Msg.(*rc.Rxattrwalk); ok {
					xr := c.Send(c.Tag(), &rc.Tread{Fid: 5, Offset: offset, Count: count})
					simrt.WaitQuiescent()
					rcx.Count("xattr_reads_at_the_limit", 1)
					if xr.Reply == nil {
						rcx.Find("C13", "no-reply", "xattr-read", "%s on an xattr fid not answered", xr)
					} else if m, ok := xr.Reply.Msg.(*rc.Rread); ok {
						for i, b := range m.Data {
							if b != byte((int(offset)+i)*7+1) {
								rcx.Find("C13", "wrong-data", "xattr-Rread", "xattr Rread byte %d is %d, the value has %d", i, b, byte((int(offset)+i)*7+1))
								break
							}
						}
					}
				}
			}
		}
		w.Shutdown()
		rcx.Findings = append(rcx.Findings, w.Findings...)
	})
	finishRun(rcx)
}

func init() {
	Register(&Engine{
		ID:   "C13",
		Desc: "negotiated msize never exceeded (server: Tread/Treaddir boundary counts; client: request sizing against smaller offered msize)",
		Run:  runC13,
		Directed: func(string) int { return c13Cases() },
		Quick:    24000, Thorough: 600000, QuickSecs: 60, ThorSecs: 900,
		Rule:  "server: msize in {24, 64, 154, 155, 512, 4096, 8192, 64 KiB, 1 MiB, 4 MiB} x Tread/Treaddir count in {0, 1, msize-24..msize+11, 4 MiB, 4 MiB+1, 2^31, 2^32-1} x file / directory (content larger or smaller than msize) x offsets, plus random perturbations; client: ReadAt/WriteAt/Readdir/GetXattr sizes against fake servers announcing a smaller msize than requested. Oracle: wire monitor (every frame <= the msize in that connection's Rversion, active in every engine), reply is a shortened Rread/Rreaddir of whole entries carrying the right bytes/entries, or an Rlerror; client requests and the replies they solicit fit the announced msize. Input/configuration property: search over sizes, not schedules.",
		Real:  []string{"p9.Server (tread, treaddir, send)", "p9.Client (chunking, payload size)", "p9 wire codec"},
		Stub:  []string{"transport (simnet pipes)", "raw 9P peer / fake server (refcodec)", "backend tree (simfs)"},
	})
}


