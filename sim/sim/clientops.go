package sim

import (
	"bytes"
	"fmt"
	"io"
	"reflect"

	"github.com/hugelgupf/p9/p9"
	rc "github.com/hugelgupf/p9/zzverif/refcodec"
	"github.com/hugelgupf/p9/zzverif/simrt"
)

// cliWorld is engine E2: the real p9.Client against the fake server.
type cliWorld struct {
	Fake   *FakeSrv
	Client *p9.Client
	rcx    *RunCtx
	prop   string
	// every File the client ever handed out is kept reachable for the whole
	// run: p9 sets finalizers on client files, and a finalizer goroutine must
	// never enter instrumented code during a simulation
	keep []p9.File
	// faulted: a transport fault or protocol violation has been injected (from
	// that step on, failing calls are expected)
	faulted   bool
	faultStep int
	dead      bool // the connection is gone for good
	deadSeq   int  // requests with Seq >= deadSeq were sent after it died
	postBad   bool // a bad frame has been injected
	ncalls    int
	nfailed   int
	// inCall: caller task -> sequence number of the first request of the call it is in
	inCall simrt.PMap[*simrt.Task, int]
}

func (cw *cliWorld) find(oracle, key, format string, args ...interface{}) {
	cw.rcx.Find(cw.prop, oracle, key, format, args...)
}

func (cw *cliWorld) hold(f p9.File) p9.File {
	if f != nil {
		cw.keep = simrt.Push(cw.keep, f)
	}
	return f
}

// myReqs returns the requests this task wrote since sequence number from.
func (cw *cliWorld) myReqs(from int) []*fsReq {
	var out []*fsReq
	me := simrt.Current()
	for _, r := range cw.Fake.Reqs[from:] {
		if r.Caller == me {
			out = append(out, r)
		}
	}
	return out
}

// judge compares the outcome of one client call with the fake server's
// replies to the requests the call sent.  A call fails with the errno of the
// first of its requests that was answered Rlerror; when every request was
// answered successfully, check is called with the reply whose type matters
// (the last non-empty reply of the call).
func (cw *cliWorld) judge(what string, from int, err error, check func(rep rc.Message) string) {
	cw.ncalls++
	if err != nil {
		cw.nfailed++
	}
	my := cw.myReqs(from)
	if cw.postBad {
		// after a frame the client cannot accept, which of the requests it has
		// given up on cannot be known from outside: only hangs are judged
		return
	}
	if len(my) == 0 {
		if err == nil {
			cw.find("call-succeeded-without-request", what, "%s returned success but sent no request", what)
		}
		return
	}
	if cw.dead && err == nil && my[0].Seq >= cw.deadSeq {
		cw.find("call-succeeded-on-dead-connection", what, "%s, issued after the connection broke, returned success", what)
		return
	}
	var failed *fsReq
	var unanswered *fsReq
	var lastOK rc.Message
	for _, r := range my {
		if r.Reply == nil {
			if unanswered == nil {
				unanswered = r
			}
			continue
		}
		if _, isErr := r.Reply.(*rc.Rlerror); isErr {
			if failed == nil {
				failed = r
			}
			continue
		}
		if _, isClunk := r.Reply.(*rc.Rclunk); !isClunk {
			lastOK = r.Reply
		}
	}
	if err != nil {
		if cw.faulted {
			return // a break makes pending and later calls fail: expected
		}
		if failed != nil {
			if got, want := errnoOf(err), failed.Reply.(*rc.Rlerror).Ecode; got != want {
				cw.find("wrong-errno", what, "%s: server answered %s with Rlerror(%d), the call returned %v (errno %d)", what, failed.Frame, want, err, got)
			}
			return
		}
		if unanswered != nil {
			cw.find("call-failed-unanswered", what, "%s returned %v although its request %s is unanswered and nothing is wrong with the connection", what, err, unanswered.Frame)
			return
		}
		cw.find("call-failed-but-answered", what, "%s returned %v although all its requests were answered successfully (last: %s)", what, err, rc.String(my[len(my)-1].Reply))
		return
	}
	// success
	if failed != nil {
		cw.find("error-swallowed", what, "%s returned success although the server answered %s with Rlerror(%d)", what, failed.Frame, failed.Reply.(*rc.Rlerror).Ecode)
		return
	}
	if unanswered != nil {
		cw.find("call-succeeded-unanswered", what, "%s returned success but its request %s was never answered", what, unanswered.Frame)
		return
	}
	if check != nil {
		rep := lastOK
		if rep == nil {
			rep = my[len(my)-1].Reply
		}
		if d := check(rep); d != "" {
			cw.find("wrong-result", what, "%s: the call did not return what the server sent for ITS request: %s", what, d)
		}
	}
}

func diff(name string, got, want interface{}) string {
	if !reflect.DeepEqual(got, want) {
		return fmt.Sprintf("%s = %+v, reply carries %+v", name, got, want)
	}
	return ""
}

func first(ds ...string) string {
	for _, d := range ds {
		if d != "" {
			return d
		}
	}
	return ""
}

// doOp performs one randomly chosen client call on one of the given files.
// files is the caller's own list (it may also contain shared files).
// checkFinalizers: the garbage collector may run the finalizer of any File
// object nobody can reach any more, at any time.  A File's finalizer clunks its
// fid; so no two File objects that carry a finalizer may have the same fid
// number - the collector would clunk the live one's fid through the dead one.
// (Finalizers are recorded by the simulator, not armed: DESIGN.md §11.)
func (cw *cliWorld) checkFinalizers(after string) {
	seen := map[uint64]bool{}
	for _, o := range simrt.ArmedFinalizers() {
		v := reflect.ValueOf(o)
		if v.Kind() != reflect.Ptr || v.Elem().Kind() != reflect.Struct {
			continue
		}
		fld := v.Elem().FieldByName("fid")
		if !fld.IsValid() || !fld.CanUint() {
			continue
		}
		if fid := fld.Uint(); seen[fid] {
			cw.find("fid-shared-by-two-files", "finalizer", "after %s two File objects with a finalizer hold fid %d: when the collector runs the unreachable one's finalizer it clunks the fid of the live one", after, fid)
			return
		} else {
			seen[fid] = true
		}
	}
}

func (cw *cliWorld) doOp(ch func(int) int, files *[]p9.File, light bool) {
	defer cw.checkFinalizers("a client call")
	from := len(cw.Fake.Reqs)
	pick := func() p9.File { return (*files)[ch(len(*files))] }
	f := pick()
	name := fmt.Sprintf("n%d", ch(1000))
	nops := 26
	if light {
		nops = 8
	}
	switch ch(nops) {
	case 0, 1:
		mask := p9.AttrMaskAll
		q, v, a, err := f.GetAttr(mask)
		cw.judge("GetAttr", from, err, func(rep rc.Message) string {
			r, ok := rep.(*rc.Rgetattr)
			if !ok {
				return "reply type " + rc.String(rep)
			}
			return first(diff("QID", q, qidFromRC(r.QID)), diff("valid", v, maskFromRC(r.Valid)), diff("attr", a, attrFromRC(r.Attr)))
		})
	case 2, 3:
		var names []string
		for k := ch(3); k > 0; k-- {
			names = append(names, fmt.Sprintf("w%d", ch(50)))
		}
		qs, nf, err := f.Walk(names)
		cw.hold(nf)
		cw.judge("Walk", from, err, func(rep rc.Message) string {
			r, ok := rep.(*rc.Rwalk)
			if !ok {
				return "reply type " + rc.String(rep)
			}
			if len(qs) == 0 && len(r.QIDs) == 0 {
				return ""
			}
			return diff("QIDs", qs, qidsFromRC(r.QIDs))
		})
		if err == nil && nf != nil {
			*files = append(*files, nf)
		}
	case 4:
		p := make([]byte, ch(200))
		off := int64(ch(1000))
		n, err := f.ReadAt(p, off)
		if err == io.EOF { // end of file; a broken connection wraps io.EOF and is not this
			err = nil
		}
		cw.judge("ReadAt", from, err, func(rep rc.Message) string {
			r, ok := rep.(*rc.Rread)
			if !ok {
				return "reply type " + rc.String(rep)
			}
			if n != len(r.Data) || !bytes.Equal(p[:n], r.Data) {
				return fmt.Sprintf("read %d bytes %x…, reply carries %d bytes %x…", n, head(p[:n]), len(r.Data), head(r.Data))
			}
			return ""
		})
	case 5:
		p := nbytes(uint64(ch(1000)), ch(200))
		n, err := f.WriteAt(p, int64(ch(1000)))
		cw.judge("WriteAt", from, err, func(rep rc.Message) string {
			r, ok := rep.(*rc.Rwrite)
			if !ok {
				return "reply type " + rc.String(rep)
			}
			return diff("count", n, int(r.Count))
		})
	case 6:
		err := f.Close()
		cw.judge("Close", from, err, nil)
		// a closed file stays in the list now and then: calls on it must fail locally
		if ch(3) != 0 && len(*files) > 1 {
			for i, x := range *files {
				if x == f {
					*files = append((*files)[:i:i], (*files)[i+1:]...)
					break
				}
			}
		}
	case 7:
		st, err := f.StatFS()
		cw.judge("StatFS", from, err, func(rep rc.Message) string {
			r, ok := rep.(*rc.Rstatfs)
			if !ok {
				return "reply type " + rc.String(rep)
			}
			return diff("stat", st, statFromRC(r))
		})
	case 8:
		q, io, err := f.Open(p9.OpenFlags(ch(3)))
		cw.judge("Open", from, err, func(rep rc.Message) string {
			r, ok := rep.(*rc.Rlopen)
			if !ok {
				return "reply type " + rc.String(rep)
			}
			return first(diff("QID", q, qidFromRC(r.QID)), diff("iounit", io, r.Iounit))
		})
	case 9:
		qs, nf, v, a, err := f.WalkGetAttr([]string{name})
		cw.hold(nf)
		cw.judge("WalkGetAttr", from, err, func(rep rc.Message) string {
			switch r := rep.(type) {
			case *rc.Rwalkgetattr:
				return first(diff("QIDs", qs, qidsFromRC(r.QIDs)), diff("valid", v, maskFromRC(r.Valid)), diff("attr", a, attrFromRC(r.Attr)))
			case *rc.Rgetattr: // versions < 2: Walk followed by GetAttr
				return first(diff("valid", v, maskFromRC(r.Valid)), diff("attr", a, attrFromRC(r.Attr)))
			}
			return "reply type " + rc.String(rep)
		})
		if err == nil && nf != nil {
			*files = append(*files, nf)
		}
	case 10:
		ds, err := f.Readdir(uint64(ch(10)), uint32(50+ch(2000)))
		cw.judge("Readdir", from, err, func(rep rc.Message) string {
			r, ok := rep.(*rc.Rreaddir)
			if !ok {
				return "reply type " + rc.String(rep)
			}
			want, _ := rc.DecodeDirents(r.Data)
			if len(ds) == 0 && len(want) == 0 {
				return ""
			}
			return diff("entries", ds, direntsFromRC(want))
		})
	case 11:
		t, err := f.Readlink()
		cw.judge("Readlink", from, err, func(rep rc.Message) string {
			r, ok := rep.(*rc.Rreadlink)
			if !ok {
				return "reply type " + rc.String(rep)
			}
			return diff("target", t, r.Target)
		})
	case 12:
		cw.judge("FSync", from, f.FSync(), nil)
	case 13:
		cw.judge("SetAttr", from, f.SetAttr(p9.SetAttrMask{Size: true, Permissions: ch(2) == 0}, p9.SetAttr{Size: uint64(ch(100)), Permissions: p9.FileMode(ch(0o10000))}), nil)
	case 14:
		q, err := f.Mkdir(name, p9.FileMode(ch(0o1000)), p9.UID(ch(5)), p9.GID(ch(5)))
		cw.judge("Mkdir", from, err, func(rep rc.Message) string {
			switch r := rep.(type) {
			case *rc.Rmkdir:
				return diff("QID", q, qidFromRC(r.QID))
			case *rc.Rumkdir:
				return diff("QID", q, qidFromRC(r.QID))
			}
			return "reply type " + rc.String(rep)
		})
	case 15:
		q, err := f.Symlink("target/"+name, name, p9.UID(ch(5)), p9.GID(ch(5)))
		cw.judge("Symlink", from, err, func(rep rc.Message) string {
			switch r := rep.(type) {
			case *rc.Rsymlink:
				return diff("QID", q, qidFromRC(r.QID))
			case *rc.Rusymlink:
				return diff("QID", q, qidFromRC(r.QID))
			}
			return "reply type " + rc.String(rep)
		})
	case 16:
		q, err := f.Mknod(name, p9.ModeNamedPipe|0o600, 1, 2, p9.UID(ch(5)), p9.GID(ch(5)))
		cw.judge("Mknod", from, err, func(rep rc.Message) string {
			switch r := rep.(type) {
			case *rc.Rmknod:
				return diff("QID", q, qidFromRC(r.QID))
			case *rc.Rumknod:
				return diff("QID", q, qidFromRC(r.QID))
			}
			return "reply type " + rc.String(rep)
		})
	case 17:
		_, q, io, err := f.Create(name, p9.ReadWrite, 0o644, p9.UID(ch(5)), p9.GID(ch(5)))
		cw.judge("Create", from, err, func(rep rc.Message) string {
			switch r := rep.(type) {
			case *rc.Rlcreate:
				return first(diff("QID", q, qidFromRC(r.QID)), diff("iounit", io, r.Iounit))
			case *rc.Rucreate:
				return first(diff("QID", q, qidFromRC(r.QID)), diff("iounit", io, r.Iounit))
			}
			return "reply type " + rc.String(rep)
		})
	case 18:
		cw.judge("Link", from, f.Link(pick(), name), nil)
	case 19:
		cw.judge("Rename", from, f.Rename(pick(), name), nil)
	case 20:
		cw.judge("RenameAt", from, f.RenameAt(name, pick(), name+"x"), nil)
	case 21:
		cw.judge("UnlinkAt", from, f.UnlinkAt(name, uint32(ch(2))*0x200), nil)
	case 22:
		rm, ok := f.(interface{ Remove() error })
		if !ok {
			return
		}
		err := rm.Remove()
		cw.judge("Remove", from, err, nil)
		if len(*files) > 1 {
			for i, x := range *files {
				if x == f {
					*files = append((*files)[:i:i], (*files)[i+1:]...)
					break
				}
			}
		}
	case 23:
		st, err := f.Lock(ch(1000), p9.LockType(ch(3)), p9.LockFlags(ch(3)), uint64(ch(100)), uint64(ch(100)), "client"+name)
		cw.judge("Lock", from, err, func(rep rc.Message) string {
			r, ok := rep.(*rc.Rlock)
			if !ok {
				return "reply type " + rc.String(rep)
			}
			return diff("status", st, p9.LockStatus(r.Status))
		})
	case 24:
		// GetXattr: xattrwalk + read(s) + clunk; judged on the sequence as a whole below
		v, err := f.GetXattr("user." + name)
		my := cw.myReqs(from)
		cw.ncalls++
		if err == nil && !cw.faulted {
			// the value must be what the server sent in its Rread(s)
			var want []byte
			var size uint64
			for _, r := range my {
				if x, ok := r.Reply.(*rc.Rxattrwalk); ok {
					size = x.Size
				}
				if x, ok := r.Reply.(*rc.Rread); ok {
					want = append(want, x.Data...)
				}
			}
			if size == 0 {
				want = nil
			}
			if !bytes.Equal(v, want) {
				cw.find("wrong-result", "GetXattr", "GetXattr returned %d bytes %x…, the server sent %d bytes %x…", len(v), head(v), len(want), head(want))
			}
		}
	case 25:
		nf, err := cw.Client.Attach([]string{"", "/", "a/b"}[ch(3)])
		cw.hold(nf)
		cw.judge("Attach", from, err, nil)
		if err == nil && nf != nil {
			*files = append(*files, nf)
		}
	}
}

// shutdown kills the connection and closes every file so that no finalizer is
// left behind.
func (cw *cliWorld) shutdown() {
	cw.faulted, cw.dead = true, true
	cw.Fake.Net.S2C.CloseWrite()
	cw.Fake.Net.C2S.CloseRead()
	for _, f := range cw.keep {
		f.Close()
	}
	cw.Fake.Stop()
}
