package sim

import (
	"fmt"

	rc "github.com/hugelgupf/p9/zzverif/refcodec"
	"github.com/hugelgupf/p9/zzverif/simfs"
	"github.com/hugelgupf/p9/zzverif/simrt"
)

// C06, small batches: n requests that the File contract does not order (each
// works on a file of its own) are all parked inside their backend calls at
// the same time and then released in EVERY order.  After each release exactly
// the released request is answered - with its own tag and R-type - and nobody
// else; while any are parked, an unrelated request is still served.

type c06BatchOp struct {
	name   string
	method string
	build  func(fid uint32) rc.Message
	open   int // -1 no open, else flags
}

var c06BatchOps = []c06BatchOp{
	{"read", "ReadAt", func(f uint32) rc.Message { return &rc.Tread{Fid: f, Offset: 0, Count: 16} }, 2},
	{"write", "WriteAt", func(f uint32) rc.Message { return &rc.Twrite{Fid: f, Offset: 0, Data: []byte("batch")} }, 2},
	{"getattr", "GetAttr", func(f uint32) rc.Message { return &rc.Tgetattr{Fid: f, Mask: rc.GetattrAll} }, -1},
	{"setattr", "SetAttr", func(f uint32) rc.Message { return &rc.Tsetattr{Fid: f, Valid: rc.SetattrMode, Mode: 0o600} }, -1},
	{"fsync", "FSync", func(f uint32) rc.Message { return &rc.Tfsync{Fid: f} }, 2},
	{"open", "Open", func(f uint32) rc.Message { return &rc.Tlopen{Fid: f, Flags: 0} }, -1},
}

type c06BatchCase struct {
	ops  []int // indices into c06BatchOps, one per request
	perm []int // release order
	two  bool  // spread over two connections
}

var c06BatchCatalogue = func() []c06BatchCase {
	var out []c06BatchCase
	var perms func(a []int, k int, f func([]int))
	perms = func(a []int, k int, f func([]int)) {
		if k == len(a) {
			f(append([]int{}, a...))
			return
		}
		for i := k; i < len(a); i++ {
			a[k], a[i] = a[i], a[k]
			perms(a, k+1, f)
			a[k], a[i] = a[i], a[k]
		}
	}
	combos := [][]int{{0, 1, 2}, {0, 0, 0}, {1, 3, 4}, {5, 2, 0}, {0, 1, 2, 3}, {5, 5, 4, 0}, {2, 2, 2, 2}}
	for _, c := range combos {
		idx := make([]int, len(c))
		for i := range idx {
			idx[i] = i
		}
		for _, two := range []bool{false, true} {
			two := two
			c := c
			perms(idx, 0, func(p []int) { out = append(out, c06BatchCase{ops: c, perm: p, two: two}) })
		}
	}
	return out
}()

func runC06Batch(rcx *RunCtx, bc c06BatchCase) {
	cfg := simCfg(rcx)
	names := ""
	for _, o := range bc.ops {
		names += c06BatchOps[o].name + ","
	}
	rcx.Label = fmt.Sprintf("batch %s release=%v two-conns=%v", names, bc.perm, bc.two)
	rcx.Sample = map[string]interface{}{"parked_together": names, "release_order": bc.perm, "two_connections": bc.two}
	find := func(oracle, key, format string, args ...interface{}) {
		rcx.Find("C06", oracle, key, format, args...)
	}
	rcx.Res = simrt.Run(cfg, rcx.Sched, func() {
		fs := simfs.New()
		fs.WalkGetAttrENOSYS = rcx.Plan.Choose(2) == 1
		for i := range bc.ops {
			fs.MkPath(fmt.Sprintf("/f%d", i))
		}
		fs.MkPath("/other")
		w := NewWorld(nil, fs)
		conns := []*SrvConn{w.Connect()}
		if bc.two {
			conns = append(conns, w.Connect())
		}
		for _, c := range conns {
			if !c.Start(8192, "9P2000.L.Google.7") || !c.WalkTo(0, 90, "/other") {
				find("setup", "setup", "setup failed")
				return
			}
		}
		connOf := func(i int) *SrvConn { return conns[i%len(conns)] }
		for i, o := range bc.ops {
			c := connOf(i)
			fid := uint32(10 + i)
			if !c.WalkTo(0, fid, fmt.Sprintf("/f%d", i)) {
				find("setup", "setup", "setup failed")
				return
			}
			if fl := c06BatchOps[o].open; fl >= 0 {
				if Errno(c.RPC(&rc.Tlopen{Fid: fid, Flags: uint32(fl)})) != 0 {
					find("setup", "setup", "open failed")
					return
				}
			}
		}
		// park every request of the batch inside its backend call
		held := make([]*simfs.Call, len(bc.ops))
		reqs := make([]*FrameRec, len(bc.ops))
		mark := fs.NCalls
		fs.Hold = func(c *simfs.Call) bool {
			if c.Seq < mark {
				return false
			}
			for i, r := range reqs {
				if r != nil && c.Req == r && held[i] == nil && c.Method == c06BatchOps[bc.ops[i]].method {
					held[i] = c
					return true
				}
			}
			return false
		}
		for i, o := range bc.ops {
			c := connOf(i)
			reqs[i] = c.Send(c.Tag(), c06BatchOps[o].build(uint32(10+i)))
		}
		simrt.WaitQuiescent()
		for i := range bc.ops {
			if held[i] == nil {
				find("not-concurrent", c06BatchOps[bc.ops[i]].name, "request %d (%s) did not reach its backend call while the others were parked in theirs: requests on different files must be served concurrently (reply so far: %v)", i, reqs[i], reqs[i].Reply != nil)
				return
			}
			if reqs[i].Reply != nil {
				find("reply-before-completion", c06BatchOps[bc.ops[i]].name, "%s answered while its backend call is parked", reqs[i])
			}
		}
		rcx.Count("batch.all_parked", 1)
		// unrelated traffic is served meanwhile, on every connection
		for _, c := range conns {
			g := c.Send(c.Tag(), &rc.Tgetattr{Fid: 90, Mask: rc.GetattrAll})
			simrt.WaitQuiescent()
			if g.Reply == nil {
				find("delayed-by-unordered-request", "batch/unrelated", "Tgetattr on an unrelated file is not answered while %d requests are parked in the backend", len(bc.ops))
			}
		}
		for step, i := range bc.perm {
			held[i].Release()
			simrt.WaitQuiescent()
			if reqs[i].Reply == nil {
				find("no-reply", "batch", "release %d of %v: %s was not answered after its backend call returned", step, bc.perm, reqs[i])
			} else if reqs[i].Reply.Tag != reqs[i].Tag {
				find("wrong-tag", "batch", "%s answered with tag %d", reqs[i], reqs[i].Reply.Tag)
			}
			// nobody else was answered by this release
			for _, j := range bc.perm[step+1:] {
				if reqs[j].Reply != nil {
					find("reply-before-completion", "batch", "release of request %d also produced a reply to request %d (%s), whose backend call is still parked", i, j, reqs[j])
				}
			}
		}
		for i := range reqs {
			if reqs[i].NReplies > 1 {
				find("duplicate-reply", "batch", "%s got %d replies", reqs[i], reqs[i].NReplies)
			}
		}
		fs.Hold = nil
		w.Shutdown()
		rcx.Findings = append(rcx.Findings, w.Findings...)
	})
	finishRun(rcx)
}

// A request whose frame is exactly as long as the negotiated msize (or one
// byte shorter) is a decodable request like any other.
var c06ExactMsizes = []uint32{4096, 8192, 65536}

func c06ExactCount() int { return len(c06ExactMsizes) * 2 }

func runC06ExactMsize(rcx *RunCtx, k int) {
	cfg := simCfg(rcx)
	msize := c06ExactMsizes[k/2]
	size := int(msize) - 1 + k%2
	rcx.Label = fmt.Sprintf("frame of %d bytes at msize %d", size, msize)
	rcx.Sample = map[string]interface{}{"msize": msize, "request_frame_bytes": size}
	rcx.Res = simrt.Run(cfg, rcx.Sched, func() {
		fs := simfs.New()
		fs.MkPath("/f")
		w := NewWorld(nil, fs)
		c := w.Connect()
		if !c.Start(msize, "9P2000.L.Google.7") || !c.WalkTo(0, 1, "/f") || Errno(c.RPC(&rc.Tlopen{Fid: 1, Flags: 2})) != 0 {
			rcx.Find("C06", "setup", "setup", "setup failed")
			return
		}
		data := make([]byte, size-23)
		for i := range data {
			data[i] = byte(i)
		}
		m := &rc.Twrite{Fid: 1, Offset: 0, Data: data}
		if len(rc.Encode(0, m)) != size {
			rcx.Find("C06", "setup", "size", "harness: frame is %d bytes, wanted %d", len(rc.Encode(0, m)), size)
			return
		}
		req := c.Send(c.Tag(), m)
		simrt.WaitQuiescent()
		if req.Reply == nil {
			rcx.Find("C06", "no-reply", "exact-msize", "a Twrite frame of %d bytes at msize %d (within the limit) was not answered", size, msize)
		} else if rw, ok := req.Reply.Msg.(*rc.Rwrite); !ok || int(rw.Count) != len(data) {
			rcx.Find("C06", "wrong-reply", "exact-msize", "a Twrite frame of %d bytes at msize %d was answered %s", size, msize, rc.String(req.Reply.Msg))
		}
		// and the connection is still there
		g := c.Send(c.Tag(), &rc.Tgetattr{Fid: 1, Mask: rc.GetattrAll})
		simrt.WaitQuiescent()
		if g.Reply == nil {
			rcx.Find("C06", "no-reply", "exact-msize/after", "the request after a frame of %d bytes at msize %d was not answered", size, msize)
		}
		w.Shutdown()
		rcx.Findings = append(rcx.Findings, w.Findings...)
	})
	finishRun(rcx)
}

// A request is executing in the backend (parked).  Variant "flush": a Tflush
// naming it arrives and waits; an unrelated request sent after the flush is
// still served - somebody keeps reading the connection.  Variant "half-close":
// the peer closes its sending direction (it has nothing more to ask) while
// the request executes; the reply is still delivered on the direction that
// is open.
var c06ParkedVariants = []string{"flush-then-traffic", "two-flushes-then-traffic", "half-close", "half-close-two-in-flight"}

func c06ParkedCount() int { return len(c06ParkedVariants) * 3 }

func runC06Parked(rcx *RunCtx, k int) {
	cfg := simCfg(rcx)
	variant := c06ParkedVariants[k%len(c06ParkedVariants)]
	xkind := k / len(c06ParkedVariants) // 0 read, 1 write, 2 getattr
	rcx.Label = fmt.Sprintf("parked %s x=%d", variant, xkind)
	rcx.Sample = map[string]interface{}{"scenario": variant, "parked_request": []string{"read", "write", "getattr"}[xkind]}
	find := func(oracle, key, format string, args ...interface{}) {
		rcx.Find("C06", oracle, key, format, args...)
	}
	rcx.Res = simrt.Run(cfg, rcx.Sched, func() {
		fs := simfs.New()
		fs.MkPath("/f")
		fs.MkPath("/g")
		fs.MkPath("/other")
		w := NewWorld(nil, fs)
		c := w.Connect()
		if !c.Start(8192, "9P2000.L.Google.7") || !c.WalkTo(0, 1, "/f") || !c.WalkTo(0, 2, "/g") || !c.WalkTo(0, 3, "/other") ||
			Errno(c.RPC(&rc.Tlopen{Fid: 1, Flags: 2})) != 0 || Errno(c.RPC(&rc.Tlopen{Fid: 2, Flags: 2})) != 0 {
			find("setup", "setup", "setup failed")
			return
		}
		build := func(fid uint32) (rc.Message, string) {
			switch xkind {
			case 0:
				return &rc.Tread{Fid: fid, Offset: 0, Count: 8}, "ReadAt"
			case 1:
				return &rc.Twrite{Fid: fid, Offset: 0, Data: []byte("parked")}, "WriteAt"
			}
			return &rc.Tgetattr{Fid: fid, Mask: rc.GetattrAll}, "GetAttr"
		}
		var held []*simfs.Call
		want := 1
		if variant == "half-close-two-in-flight" {
			want = 2
		}
		mark := fs.NCalls
		_, method := build(1)
		fs.Hold = func(cl *simfs.Call) bool {
			if cl.Seq >= mark && len(held) < want && cl.Method == method {
				held = append(held, cl)
				return true
			}
			return false
		}
		var xs []*FrameRec
		for i := 0; i < want; i++ {
			m, _ := build(uint32(1 + i))
			xs = append(xs, c.Send(c.Tag(), m))
		}
		simrt.WaitQuiescent()
		if len(held) != want {
			find("setup", "hold", "the request did not park in the backend")
			return
		}
		switch variant {
		case "flush-then-traffic", "two-flushes-then-traffic":
			fl := []*FrameRec{c.Send(c.Tag(), &rc.Tflush{OldTag: xs[0].Tag})}
			if variant == "two-flushes-then-traffic" {
				fl = append(fl, c.Send(c.Tag(), &rc.Tflush{OldTag: xs[0].Tag}))
			}
			simrt.WaitQuiescent()
			for i := 0; i < 3; i++ {
				g := c.Send(c.Tag(), &rc.Tgetattr{Fid: 3, Mask: rc.GetattrAll})
				simrt.WaitQuiescent()
				if g.Reply == nil {
					find("delayed-by-unordered-request", "behind-waiting-flush", "request %d on an unrelated file, sent after a Tflush that is waiting for a request parked in %s, is not answered: nobody reads the connection", i+1, method)
					break
				}
			}
			fs.Hold = nil
			held[0].Release()
			simrt.WaitQuiescent()
			for _, f := range fl {
				if f.Reply == nil || f.Reply.Type != rc.TypeRflush {
					find("no-reply", "flush", "%s not answered with Rflush after the flushed request finished", f)
				}
			}
		default: // half-close
			c.Net.C2S.CloseWrite()
			simrt.WaitQuiescent()
			fs.Hold = nil
			for _, h := range held {
				h.Release()
				simrt.WaitQuiescent()
			}
			c.closed = true // nothing more can be sent
		}
		for _, x := range xs {
			if x.Reply == nil {
				find("no-reply", variant, "%s, executing while %s, never got its reply although the reply direction was open", x, variant)
			} else if x.Reply.Type == rc.TypeRlerror {
				find("wrong-reply", variant, "%s answered %s", x, x.Reply)
			}
		}
		fs.Hold = nil
		w.Shutdown()
		rcx.Findings = append(rcx.Findings, w.Findings...)
	})
	finishRun(rcx)
}
