package sim

// filled in with the fake server (fakesrv.go)
func runC12Client(rcx *RunCtx) { runC12ClientImpl(rcx) }
