package sim

import (
	"fmt"
	"io"
	"strings"
	"syscall"

	"github.com/hugelgupf/p9/p9"
	rc "github.com/hugelgupf/p9/zzverif/refcodec"
	"github.com/hugelgupf/p9/zzverif/simnet"
	"github.com/hugelgupf/p9/zzverif/simrt"
)

// Client-side halves of C12, C13, C02, C17 and C18 (engine E2).

func runC12Client(rcx *RunCtx) { runC12ClientImpl(rcx) }

var c12Offers = []string{"", "9P2000.L", "9P2000.L.Google.1", "9P2000.L.Google.2", "9P2000.L.Google.3", "9P2000.L.Google.6", "9P2000.L.Google.7",
	"unknown", "9P2000", "9P2000.u", "9p2000.l", "9P2000.L.Google.", "9P2000.L.Google.x", "garbage\x00", "9P2000.L.Google.1.2"}

// typesAllowed: message types a client may send at .Google.N
func typeAllowedAt(t uint8, v uint32) bool {
	switch t {
	case rc.TypeTwalkgetattr:
		return v >= 2
	case rc.TypeTucreate, rc.TypeTumkdir, rc.TypeTumknod, rc.TypeTusymlink:
		return v >= 3
	}
	return true
}

func versionNumber(s string) (uint32, bool) {
	if s == "9P2000.L" {
		return 0, true
	}
	const pfx = "9P2000.L.Google."
	if !strings.HasPrefix(s, pfx) || len(s) == len(pfx) {
		return 0, false
	}
	var n uint32
	for _, c := range []byte(s[len(pfx):]) {
		if c < '0' || c > '9' {
			return 0, false
		}
		n = n*10 + uint32(c-'0')
	}
	return n, true
}

func runC12ClientImpl(rcx *RunCtx) {
	cfg := simCfg(rcx)
	p := rcx.Plan
	reqMsize := []uint32{154, 4096, 8192, 65536, 1 << 20}[p.Choose(5)]
	offerV := c12Offers[p.Choose(len(c12Offers))]
	offerM := []uint32{0, reqMsize, reqMsize - 1, reqMsize / 2, 154, 153, 100, 23, reqMsize + 1, 4 << 20}[p.Choose(10)]
	eagain := []int{0, 0, 0, 1, 3, 7, 8, 9}[p.Choose(8)]
	otherErr := uint32(0)
	if p.Choose(8) == 0 {
		otherErr = []uint32{EIO, EINVAL, ENOSYS}[p.Choose(3)]
	}
	rcx.Label = "client"
	rcx.Sample = map[string]interface{}{"side": "client", "requested_msize": reqMsize, "offered_version": fmt.Sprintf("%q", offerV), "offered_msize": offerM, "eagain_replies": eagain, "other_rlerror": otherErr}
	cw := &cliWorld{rcx: rcx, prop: "C12"}
	rcx.Res = simrt.Run(cfg, rcx.Sched, func() {
		fake := NewFakeSrv("cli")
		cw.Fake = fake
		fake.Version = offerV
		fake.Msize = offerM
		fake.EAgain = eagain
		fake.VersionErr = otherErr
		if offerM == 0 {
			fake.Msize = 0
		}
		fake.Policy = func(r *fsReq) rc.Message {
			if t, ok := r.Msg.(*rc.Tversion); ok && fake.EAgain == 0 && fake.VersionErr == 0 {
				m := t.Msize
				if offerM != 0 {
					m = offerM // the server may even offer MORE than asked; the client must not use more than it asked for
				}
				v := offerV
				if v == "" {
					v = t.Version
				}
				return &rc.Rversion{Msize: m, Version: v}
			}
			return nil
		}
		simrt.GoNamed("fakesrv", func() { fake.Serve(nil) })
		cl, err := p9.NewClient(fake.Net.A, p9.WithMessageSize(reqMsize))
		// what did the server finally offer?
		var offered *rc.Rversion
		nver := 0
		for _, r := range fake.Reqs {
			if _, ok := r.Msg.(*rc.Tversion); ok {
				nver++
				if rv, ok := r.Reply.(*rc.Rversion); ok {
					offered = rv
				}
			}
		}
		rcx.Count("tversions_sent", nver)
		wantFail := false
		why := ""
		switch {
		case otherErr != 0 && eagain < 8:
			wantFail, why = true, "the server answered Tversion with an error"
		case eagain >= 8:
			wantFail, why = true, "the server refused every version down to 0"
		case offered != nil:
			if _, ok := versionNumber(offered.Version); !ok {
				wantFail, why = true, fmt.Sprintf("the offered version %q is not a 9P2000.L version", offered.Version)
			}
		}
		if offered != nil && !wantFail && offered.Msize <= 153 {
			// no room for a payload at all: failing is the only sane outcome, proceeding is not required
			if err == nil {
				rcx.Count("proceeded_with_tiny_msize", 1)
			}
			cw.shutdownQuiet(cl)
			return
		}
		if wantFail {
			if err == nil {
				cw.find("newclient-proceeded", "version", "NewClient succeeded although %s", why)
			}
			cw.shutdownQuiet(cl)
			return
		}
		if err != nil {
			cw.find("newclient-failed", "version", "NewClient failed (%v) although the server offered %+v", err, offered)
			fake.Stop()
			return
		}
		cw.Client = cl
		wantV, _ := versionNumber(offered.Version)
		if cl.Version() != wantV {
			cw.find("version-not-adopted", "version", "server offered %q, Client.Version() = %d", offered.Version, cl.Version())
		}
		effM := offered.Msize
		if effM > reqMsize {
			effM = reqMsize
		}
		fake.Mon.Msize = effM
		// use the connection: every later frame fits the offered msize and
		// uses only message types the offered version defines
		root, err := cl.Attach("")
		if err != nil {
			cw.find("setup", "attach", "Attach failed: %v", err)
			cw.shutdown()
			return
		}
		cw.hold(root)
		files := []p9.File{root}
		nreq := len(fake.Reqs)
		if effM >= 2048 { // the canned replies of the fake server need some room themselves
			for i := 0; i < 25; i++ {
				cw.doOp(simrt.Choose, &files, false)
			}
		} else {
			// (every File is kept reachable: a finalizer must never run p9 code)
			root.Mkdir("d", 0o700, 1, 2)
			_, f1, _ := root.Walk([]string{"a"})
			cw.hold(f1)
			_, f2, _, _, _ := root.WalkGetAttr([]string{"a"})
			cw.hold(f2)
			if _, w, _ := root.Walk(nil); w != nil {
				cw.hold(w)
				f3, _, _, _ := w.Create("c", p9.ReadWrite, 0o600, 1, 2)
				cw.hold(f3)
			}
		}
		big := make([]byte, int(effM)*2+100)
		root.WriteAt(big, 0)
		root.ReadAt(big, 0)
		for _, r := range fake.Reqs[nreq:] {
			if !typeAllowedAt(r.Frame.Type, wantV) {
				cw.find("message-type-not-in-version", rc.TypeName(r.Frame.Type), "at negotiated version %d the client sent %s", wantV, r.Frame)
			}
			if r.Frame.Size > effM {
				cw.find("frame-exceeds-offered-msize", rc.TypeName(r.Frame.Type), "offered msize %d (requested %d), client sent a %d-byte %s", offered.Msize, reqMsize, r.Frame.Size, rc.TypeName(r.Frame.Type))
			}
			if t, ok := r.Msg.(*rc.Tread); ok && 11+t.Count > effM {
				cw.find("reply-cannot-fit-offered-msize", "Tread", "offered msize %d, Tread count %d solicits a %d-byte Rread", effM, t.Count, 11+t.Count)
			}
		}
		cw.shutdown()
		rcx.Findings = append(rcx.Findings, fake.Findings...)
	})
	finishRun(rcx)
	for i := range rcx.Findings {
		f := &rcx.Findings[i]
		if f.Prop == "C16" {
			f.Prop = "C12"
		}
	}
}

// shutdownQuiet ends a run in which NewClient may or may not have returned a client.
func (cw *cliWorld) shutdownQuiet(cl *p9.Client) {
	cw.Fake.Net.S2C.CloseWrite()
	cw.Fake.Net.C2S.CloseRead()
	cw.Fake.Stop()
}

// ------------------------------------------------------------------ C13 client

func runC13Client(rcx *RunCtx) {
	cfg := simCfg(rcx)
	p := rcx.Plan
	reqMsize := []uint32{4096, 8192, 65536, 1 << 20}[p.Choose(4)]
	offerM := []uint32{154, 155, 512, 1024, reqMsize / 2, reqMsize - 1, reqMsize}[p.Choose(7)]
	if offerM > reqMsize {
		offerM = reqMsize
	}
	xsize := []int{0, 1, 100, int(offerM) - 154, int(offerM), int(offerM) * 3, 70000}[p.Choose(7)]
	if offerM < 600 && xsize > 400 {
		// at the smallest msizes the payload is a byte or two per round trip
		xsize = 400
	}
	if xsize < 0 {
		xsize = 0
	}
	shortWrite := p.Choose(4) // 0 = never; else the n-th Twrite is answered short
	rcx.Label = "client"
	rcx.Sample = map[string]interface{}{"side": "client", "requested_msize": reqMsize, "offered_msize": offerM, "xattr_size": xsize, "short_write_at_chunk": shortWrite}
	cw := &cliWorld{rcx: rcx, prop: "C13"}
	rcx.Res = simrt.Run(cfg, rcx.Sched, func() {
		fake := NewFakeSrv("cli")
		cw.Fake = fake
		fake.Msize = offerM
		val := nbytes(77, xsize)
		nwrites := 0
		fake.Policy = func(r *fsReq) rc.Message {
			switch m := r.Msg.(type) {
			case *rc.Txattrwalk:
				return &rc.Rxattrwalk{Size: uint64(xsize)}
			case *rc.Twrite:
				// one chunk of a multi-chunk write is accepted only in part
				// (no error): whatever the client does next still fits msize
				nwrites++
				if nwrites == shortWrite && len(m.Data) > 1 {
					simrt.Fault("server.short-count")
					return &rc.Rwrite{Count: uint32(1 + len(m.Data)/3)}
				}
			case *rc.Tread:
				if m.Fid != 1 { // the xattr fid
					end := int(m.Offset) + int(m.Count)
					if int(m.Offset) > len(val) {
						return &rc.Rread{}
					}
					if end > len(val) {
						end = len(val)
					}
					return &rc.Rread{Data: append([]byte{}, val[m.Offset:end]...)}
				}
			}
			return nil
		}
		simrt.GoNamed("fakesrv", func() { fake.Serve(nil) })
		cl, err := p9.NewClient(fake.Net.A, p9.WithMessageSize(reqMsize))
		if err != nil {
			cw.find("setup", "newclient", "NewClient failed: %v", err)
			fake.Stop()
			return
		}
		cw.Client = cl
		fake.Mon.Msize = offerM
		root, err := cl.Attach("")
		if err != nil {
			cw.find("setup", "attach", "%v", err)
			cw.shutdown()
			return
		}
		cw.hold(root)
		nreq := len(fake.Reqs)
		v, err := root.GetXattr("user.big")
		if err != nil {
			cw.find("getxattr-failed", "GetXattr", "GetXattr of a %d-byte value at offered msize %d failed: %v", xsize, offerM, err)
		} else if string(v) != string(val) {
			cw.find("getxattr-wrong-value", "GetXattr", "GetXattr returned %d bytes, the value has %d", len(v), len(val))
		}
		buf := make([]byte, int(offerM)*2+13)
		root.ReadAt(buf, 5)
		root.WriteAt(buf, 7)
		root.WriteAt(make([]byte, int(offerM)*3+1), 0)
		root.Readdir(0, offerM*3)
		for _, r := range fake.Reqs[nreq:] {
			if r.Frame.Size > offerM {
				cw.find("request-exceeds-msize", rc.TypeName(r.Frame.Type), "server announced msize %d, client sent a %d-byte %s", offerM, r.Frame.Size, rc.TypeName(r.Frame.Type))
			}
			if t, ok := r.Msg.(*rc.Tread); ok && 11+t.Count > offerM {
				cw.find("reply-cannot-fit-msize", "Tread", "server announced msize %d, Tread count %d solicits a %d-byte Rread", offerM, t.Count, 11+t.Count)
			}
		}
		cw.shutdown()
		rcx.Findings = append(rcx.Findings, fake.Findings...)
		rcx.Findings = append(rcx.Findings, fake.Mon.Findings...)
	})
	finishRun(rcx)
}

// ------------------------------------------------------------------ C02 client

func runC02Client(rcx *RunCtx) {
	cfg := simCfg(rcx)
	p := rcx.Plan
	ngood := p.Choose(12)
	seg := []int{simnet.SegWhole, simnet.SegRandom, simnet.SegByte}[p.Choose(3)]
	msize := []uint32{8192, 1024, 65536}[p.Choose(3)]
	overlong := p.Choose(5) == 0 // a well-formed reply carrying more than was asked for
	rcx.Label = "client"
	cw := &cliWorld{rcx: rcx, prop: "C02"}
	what := "none"
	rcx.Res = simrt.Run(cfg, rcx.Sched, func() {
		fake := NewFakeSrv("cli")
		cw.Fake = fake
		fake.Net.S2C.Seg = seg
		fake.maxFrame = msize
		answered := 0
		hook := func(f *FakeSrv) bool {
			if len(f.pend) == 0 || cw.dead {
				if cw.dead {
					simrt.Block("fakesrv: dead", func() bool { return f.stop })
				}
				return true
			}
			r := f.pend[0]
			if answered < ngood+2 { // version, attach, then ngood strict replies
				answered++
				return false
			}
			// one hostile frame, then the stream ends
			cw.faulted, cw.postBad = true, true
			f.broken = true
			var b []byte
			if overlong {
				switch m := r.Msg.(type) {
				case *rc.Tread:
					b, what = rc.Encode(r.Frame.Tag, &rc.Rread{Data: make([]byte, int(m.Count)+1+simrt.Choose(300))}), "Rread longer than asked"
				case *rc.Twrite:
					b, what = rc.Encode(r.Frame.Tag, &rc.Rwrite{Count: uint32(len(m.Data) + 1 + simrt.Choose(1000))}), "Rwrite count larger than sent"
				case *rc.Twalk:
					b, what = rc.Encode(r.Frame.Tag, &rc.Rwalk{QIDs: make([]rc.QID, len(m.Names)+1+simrt.Choose(20))}), "Rwalk with more QIDs than names"
				case *rc.Txattrwalk:
					b, what = rc.Encode(r.Frame.Tag, &rc.Rxattrwalk{Size: 1 << uint(20+simrt.Choose(43))}), "Rxattrwalk with an enormous size"
				}
			}
			if b == nil {
				good := rc.Encode(r.Frame.Tag, f.DefaultReply(r))
				b, what = c02Mutate(simrt.Choose, good, msize)
			}
			simrt.Fault("client-side.hostile-frame")
			f.Net.B.Write(b)
			f.Net.S2C.CloseWrite()
			cw.dead = true
			return true
		}
		simrt.GoNamed("fakesrv", func() { fake.Serve(hook) })
		cl, err := p9.NewClient(fake.Net.A, p9.WithMessageSize(msize))
		if err != nil {
			cw.shutdownQuiet(cl)
			return
		}
		cw.Client = cl
		root, err := cl.Attach("")
		if err != nil {
			cw.shutdown()
			return
		}
		cw.hold(root)
		files := []p9.File{root}
		for i := 0; i < ngood+6; i++ {
			cw.doOp(simrt.Choose, &files, false)
		}
		if mb := fake.Net.S2C.MaxReadBuf; mb > int(msize) && mb > 4<<20 {
			cw.find("unbounded-buffer", "read", "the client issued a Read with a %d-byte buffer (msize %d)", mb, msize)
		}
		cw.shutdown()
		rcx.Findings = append(rcx.Findings, fake.Findings...)
	})
	rcx.Sample = map[string]interface{}{"receiver": "client", "good_replies_first": ngood, "hostile_frame": what, "segmentation": seg, "msize": msize}
	finishRun(rcx)
	for i := range rcx.Findings {
		f := &rcx.Findings[i]
		if f.Prop == "C16" {
			f.Prop = "C02"
			if f.Oracle == "deadlock" {
				f.Oracle, f.Key = "client-hang-after-eof", "client-hang-after-eof"
			}
		}
	}
}

// ------------------------------------------------------------------ C17 client

// sockRWC is a client connection whose read side is a real socket pair.
type sockRWC struct {
	r *simnet.SockReader
	w *simnet.End
}

func (s *sockRWC) Read(p []byte) (int, error)           { return s.r.Read(p) }
func (s *sockRWC) Write(p []byte) (int, error)          { return s.w.Write(p) }
func (s *sockRWC) Close() error                         { s.r.Close(); return s.w.Close() }
func (s *sockRWC) SyscallConn() (syscall.RawConn, error) { return s.r.SyscallConn() }

var _ io.ReadWriteCloser = (*sockRWC)(nil)

func runC17Client(rcx *RunCtx) {
	cfg := simCfg(rcx)
	p := rcx.Plan
	sock := p.Choose(2) == 1
	seg := []int{simnet.SegWhole, simnet.SegRandom, simnet.SegByte, simnet.SegRandom}[p.Choose(4)]
	ncallers := 1 + p.Choose(3)
	nops := 4 + p.Choose(12)
	endMid := p.Choose(5) == 0
	path := "io.Reader"
	if sock {
		path = "socketpair/recvmsg"
	}
	rcx.Label = "client " + path
	rcx.Sample = map[string]interface{}{"receiver": "client", "path": path, "segmentation": seg, "callers": ncallers, "calls": nops, "stream_ends_inside_a_frame": endMid}
	cw := &cliWorld{rcx: rcx, prop: "C17"}
	rcx.Res = simrt.Run(cfg, rcx.Sched, func() {
		fake := NewFakeSrv("cli")
		cw.Fake = fake
		var conn io.ReadWriteCloser = fake.Net.A
		var sr *simnet.SockReader
		if sock {
			var err error
			sr, err = simnet.NewSockReader("cli.sock")
			if err != nil {
				panic(err)
			}
			sr.Seg = seg
			conn = &sockRWC{r: sr, w: fake.Net.A}
		} else {
			fake.Net.S2C.Seg = seg
		}
		total := ncallers*nops + 2
		sent := 0
		hook := func(f *FakeSrv) bool {
			if cw.dead {
				simrt.Block("fakesrv: dead", func() bool { return f.stop })
				return true
			}
			if len(f.pend) == 0 {
				return true
			}
			r := f.pend[simrt.Choose(len(f.pend))]
			rep := f.DefaultReply(r)
			b := rc.Encode(r.Frame.Tag, rep)
			sent++
			if endMid && sent > total/2 {
				// the stream ends inside this frame
				cw.faulted, cw.dead, cw.deadSeq = true, true, len(f.Reqs)
				f.broken = true
				b = b[:1+simrt.Choose(len(b)-1)]
				if sr != nil {
					fake.Mon.Rep.feed(simrt.Current(), b)
					sr.Feed(b)
					sr.FinishFeed()
					simrt.Yield("feed")
				} else {
					f.Net.B.Write(b)
					f.Net.S2C.CloseWrite()
				}
				return true
			}
			f.noteReply(r, rep)
			if sr != nil {
				fake.Mon.Rep.feed(simrt.Current(), b)
				sr.Feed(b)
				simrt.Yield("feed")
			} else {
				f.Net.B.Write(b)
			}
			return true
		}
		simrt.GoNamed("fakesrv", func() { fake.Serve(hook) })
		cl, err := p9.NewClient(conn, p9.WithMessageSize(8192))
		if err != nil {
			cw.find("setup", "newclient", "NewClient failed: %v", err)
			fake.Stop()
			return
		}
		cw.Client = cl
		root, err := cl.Attach("")
		if err != nil {
			if !cw.faulted {
				cw.find("setup", "attach", "%v", err)
			}
			cw.shutdownSock(sr)
			return
		}
		cw.hold(root)
		done := 0
		for i := 0; i < ncallers; i++ {
			simrt.GoNamed(fmt.Sprintf("caller%d", i), func() {
				files := []p9.File{root}
				for k := 0; k < nops; k++ {
					cw.doOp(simrt.Choose, &files, false)
				}
				done++
			})
		}
		simrt.Block("callers done", func() bool { return done == ncallers })
		simrt.Join()
		cw.shutdownSock(sr)
		rcx.Findings = append(rcx.Findings, fake.Findings...)
	})
	finishRun(rcx)
	for i := range rcx.Findings {
		f := &rcx.Findings[i]
		if f.Prop == "C16" {
			f.Prop = "C17"
		}
	}
}

func (cw *cliWorld) shutdownSock(sr *simnet.SockReader) {
	cw.faulted, cw.dead = true, true
	if sr != nil {
		sr.FinishFeed()
	}
	cw.Fake.Net.S2C.CloseWrite()
	cw.Fake.Net.C2S.CloseRead()
	for _, f := range cw.keep {
		f.Close()
	}
	cw.Fake.Stop()
	if sr != nil {
		sr.Close()
	}
}

// ------------------------------------------------------------------ C18 client

func runC18Client(rcx *RunCtx) {
	cfg := simCfg(rcx)
	cfg.PoolMissPct = []int{0, 20, 50, 90}[rcx.Plan.Choose(4)]
	p := rcx.Plan
	kind := p.Choose(5)
	n := 6 + p.Choose(20)
	ncallers := 1 + p.Choose(3)
	rcx.Label = fmt.Sprintf("client kind=%d", kind)
	rcx.Sample = map[string]interface{}{"receiver": "client", "reply_kind": []string{"Rwalk qid lists", "Rread payloads", "Rreaddir entries", "Rreadlink strings", "mixed"}[kind], "train_length": n, "callers": ncallers, "pool_miss_pct": cfg.PoolMissPct}
	cw := &cliWorld{rcx: rcx, prop: "C18"}
	shapes := []int{16, 9, 1, 0, 3, 0, 16, 2, 0}
	rcx.Res = simrt.Run(cfg, rcx.Sched, func() {
		fake := NewFakeSrv("cli")
		cw.Fake = fake
		fake.Policy = func(r *fsReq) rc.Message {
			sz := shapes[r.Seq%len(shapes)]
			switch m := r.Msg.(type) {
			case *rc.Tread:
				k := sz * 60
				if k > int(m.Count) {
					k = int(m.Count)
				}
				return &rc.Rread{Data: nbytes(r.Nonce, k)}
			case *rc.Treaddir:
				var ds []rc.Dirent
				used := 0
				for i := 0; i < sz; i++ {
					d := rc.Dirent{QID: nqid(r.Nonce + uint64(i)), Offset: uint64(i + 1), Type: uint8(i), Name: strings.Repeat("e", 1+(i*7)%40)}
					if used+rc.DirentSize(d.Name) > int(m.Count) {
						break
					}
					used += rc.DirentSize(d.Name)
					ds = append(ds, d)
				}
				return &rc.Rreaddir{Data: rc.EncodeDirents(ds)}
			case *rc.Treadlink:
				return &rc.Rreadlink{Target: strings.Repeat("L", sz*30)}
			}
			return nil
		}
		simrt.GoNamed("fakesrv", func() { fake.Serve(nil) })
		cl, err := p9.NewClient(fake.Net.A, p9.WithMessageSize(8192))
		if err != nil {
			cw.find("setup", "newclient", "%v", err)
			fake.Stop()
			return
		}
		cw.Client = cl
		root, err := cl.Attach("")
		if err != nil {
			cw.find("setup", "attach", "%v", err)
			cw.shutdown()
			return
		}
		cw.hold(root)
		done := 0
		for c := 0; c < ncallers; c++ {
			simrt.GoNamed(fmt.Sprintf("caller%d", c), func() {
				// what a call returned belongs to the caller: later replies,
				// decoded into recycled objects, must not change it
				type kept struct {
					what string
					live interface{}
					snap string
				}
				var keep []kept
				defer func() {
					for _, k := range keep {
						if now := fmt.Sprintf("%v", k.live); now != k.snap {
							cw.find("result-changed-later", k.what, "a %s result handed to the caller changed while later replies were decoded: it was %s, it is %s", k.what, trunc(k.snap, 120), trunc(now, 120))
							break
						}
					}
				}()
				for i := 0; i < n; i++ {
					from := len(fake.Reqs)
					k := kind
					if kind == 4 {
						k = simrt.Choose(4)
					}
					switch k {
					case 0:
						var names []string
						for j := 0; j < shapes[(i+simrt.Choose(2))%len(shapes)]; j++ {
							names = append(names, fmt.Sprintf("n%d", j))
						}
						qs, nf, err := root.Walk(names)
						cw.hold(nf)
						if err == nil && len(qs) > 0 {
							keep = append(keep, kept{"Walk", qs, fmt.Sprintf("%v", qs)})
						}
						cw.judge("Walk", from, err, func(rep rc.Message) string {
							r, ok := rep.(*rc.Rwalk)
							if !ok {
								return "reply type " + rc.String(rep)
							}
							if len(qs) == 0 && len(r.QIDs) == 0 {
								return ""
							}
							return diff("QIDs", qs, qidsFromRC(r.QIDs))
						})
					case 1:
						pbuf := make([]byte, 1000)
						nn, err := root.ReadAt(pbuf, int64(simrt.Choose(50)))
						if err == io.EOF {
							err = nil
						}
						cw.judge("ReadAt", from, err, func(rep rc.Message) string {
							r, ok := rep.(*rc.Rread)
							if !ok {
								return "reply type " + rc.String(rep)
							}
							if nn != len(r.Data) || string(pbuf[:nn]) != string(r.Data) {
								return fmt.Sprintf("read %d bytes %x…, the reply to this request carries %d bytes %x…", nn, head(pbuf[:nn]), len(r.Data), head(r.Data))
							}
							// nothing beyond n may have been touched
							for _, b := range pbuf[nn:] {
								if b != 0 {
									return "bytes beyond the returned count were written into the caller's buffer"
								}
							}
							return ""
						})
					case 2:
						ds, err := root.Readdir(0, 4000)
						if err == nil && len(ds) > 0 {
							keep = append(keep, kept{"Readdir", ds, fmt.Sprintf("%v", ds)})
						}
						cw.judge("Readdir", from, err, func(rep rc.Message) string {
							r, ok := rep.(*rc.Rreaddir)
							if !ok {
								return "reply type " + rc.String(rep)
							}
							want, _ := rc.DecodeDirents(r.Data)
							if len(ds) == 0 && len(want) == 0 {
								return ""
							}
							return diff("entries", ds, direntsFromRC(want))
						})
					case 3:
						t, err := root.Readlink()
						cw.judge("Readlink", from, err, func(rep rc.Message) string {
							r, ok := rep.(*rc.Rreadlink)
							if !ok {
								return "reply type " + rc.String(rep)
							}
							return diff("target", t, r.Target)
						})
					}
				}
				done++
			})
		}
		simrt.Block("callers done", func() bool { return done == ncallers })
		simrt.Join()
		cw.shutdown()
		rcx.Findings = append(rcx.Findings, fake.Findings...)
	})
	finishRun(rcx)
	for i := range rcx.Findings {
		f := &rcx.Findings[i]
		if f.Prop == "C16" {
			f.Prop = "C18"
		}
	}
}
