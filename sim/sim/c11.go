package sim

import (
	"bytes"
	"fmt"
	"io"

	"github.com/hugelgupf/p9/p9"
	rc "github.com/hugelgupf/p9/zzverif/refcodec"
	"github.com/hugelgupf/p9/zzverif/simrt"
)

// C11 — chunked I/O: ReadAt/WriteAt of any size equal one remote operation.
//
// Engine E2: the fake server holds a byte-slice file and answers Tread/Twrite
// from it, fully, short, or with an error at a chosen chunk.  The oracle is the
// same byte-slice model plus the wire: chunks in increasing contiguous
// offsets, each small enough that request and reply fit the announced msize,
// nothing sent after the first short or failed chunk.

var c11Msizes = []uint32{154, 155, 665, 666, 667, 1024, 4096, 8192, 65536, 1 << 20}

func c11Lengths(p int) []int {
	return []int{0, 1, p - 1, p, p + 1, 2*p - 1, 2 * p, 2*p + 1, 3*p + 7, 5 * p}
}

func runC11(rcx *RunCtx) {
	cfg := simCfg(rcx)
	pl := rcx.Plan
	msize := c11Msizes[pl.Choose(len(c11Msizes))]
	offered := msize
	if pl.Choose(3) == 0 {
		offered = msize - uint32(pl.Choose(int(msize/3)))
		if offered < 154 {
			offered = 154
		}
	}
	fileSize := []int{0, 1, 100, 5000, 70000}[pl.Choose(5)]
	isWrite := pl.Choose(2) == 1
	// the client's own idea of the payload (what it will cut into): learn it from
	// the first chunk; lengths are chosen relative to a guess and to msize
	guess := int(offered) - 153
	if guess > 512 {
		guess -= guess % 512
	}
	if guess < 1 {
		guess = 1
	}
	lens := c11Lengths(guess)
	length := lens[pl.Choose(len(lens))]
	if length < 0 {
		length = 0
	}
	if length > 3<<20 {
		length = 3 << 20
	}
	offs := []int64{0, int64(fileSize / 2), int64(fileSize) - 1, int64(fileSize), int64(fileSize) + 1, 1<<32 - 1, 1<<32 + 1, 1 << 62}
	offset := offs[pl.Choose(len(offs))]
	if offset < 0 {
		offset = 0
	}
	// fault plan: which chunk misbehaves and how
	badChunk := -1
	badKind := 0 // 1 short, 2 error, 3 zero
	if pl.Choose(2) == 0 {
		badChunk = pl.Choose(6)
		badKind = 1 + pl.Choose(3)
	}
	rcx.Label = fmt.Sprintf("write=%v", isWrite)
	rcx.Sample = map[string]interface{}{"msize_requested": msize, "msize_offered": offered, "file_size": fileSize, "write": isWrite, "length": length, "offset": offset, "bad_chunk": badChunk, "bad_kind": badKind}
	cw := &cliWorld{rcx: rcx, prop: "C11"}
	rcx.Res = simrt.Run(cfg, rcx.Sched, func() {
		fake := NewFakeSrv("cli")
		cw.Fake = fake
		fake.Msize = offered
		fake.maxFrame = offered
		model := make([]byte, fileSize)
		for i := range model {
			model[i] = byte(i*11 + 3)
		}
		// what lives at huge offsets: a sparse overlay keyed by offset
		type ext struct {
			off  uint64
			data []byte
		}
		var far []ext
		readModel := func(off uint64, n int) []byte {
			if off < uint64(len(model)) {
				end := off + uint64(n)
				if end > uint64(len(model)) {
					end = uint64(len(model))
				}
				return append([]byte{}, model[off:end]...)
			}
			var out []byte
			for len(out) < n {
				found := false
				for _, e := range far {
					cur := off + uint64(len(out))
					if cur >= e.off && cur < e.off+uint64(len(e.data)) {
						d := e.data[cur-e.off:]
						if len(d) > n-len(out) {
							d = d[:n-len(out)]
						}
						out = append(out, d...)
						found = true
						break
					}
				}
				if !found {
					break
				}
			}
			return out
		}
		chunkNo := 0
		var chunks []string
		var firstBad = -1
		fake.Policy = func(r *fsReq) rc.Message {
			switch m := r.Msg.(type) {
			case *rc.Tread:
				k := chunkNo
				chunkNo++
				chunks = append(chunks, fmt.Sprintf("Tread(off %d, count %d)", m.Offset, m.Count))
				d := readModel(m.Offset, int(m.Count))
				if k == badChunk {
					simrt.Fault([]string{"", "server.short-count", "server.error-reply", "server.zero-count"}[badKind])
					firstBad = k
					switch badKind {
					case 1:
						if len(d) > 0 {
							d = d[:len(d)/2]
						}
					case 2:
						return &rc.Rlerror{Ecode: EIO}
					case 3:
						d = nil
					}
				}
				return &rc.Rread{Data: d}
			case *rc.Twrite:
				k := chunkNo
				chunkNo++
				chunks = append(chunks, fmt.Sprintf("Twrite(off %d, len %d)", m.Offset, len(m.Data)))
				n := len(m.Data)
				if k == badChunk {
					simrt.Fault([]string{"", "server.short-count", "server.error-reply", "server.zero-count"}[badKind])
					firstBad = k
					switch badKind {
					case 1:
						n = n / 2
					case 2:
						return &rc.Rlerror{Ecode: 28}
					case 3:
						n = 0
					}
				}
				// store exactly what is acknowledged
				if m.Offset < 1<<24 {
					end := int(m.Offset) + n
					if end > len(model) {
						model = append(model, make([]byte, end-len(model))...)
					}
					copy(model[m.Offset:], m.Data[:n])
				} else if n > 0 {
					far = append(far, ext{m.Offset, append([]byte{}, m.Data[:n]...)})
				}
				return &rc.Rwrite{Count: uint32(n)}
			}
			return nil
		}
		simrt.GoNamed("fakesrv", func() { fake.Serve(nil) })
		cl, err := p9.NewClient(fake.Net.A, p9.WithMessageSize(msize))
		if err != nil {
			cw.find("setup", "newclient", "NewClient(msize %d) failed: %v", msize, err)
			fake.Stop()
			return
		}
		cw.Client = cl
		root, err := cl.Attach("")
		if err != nil {
			cw.find("setup", "attach", "Attach failed: %v", err)
			cw.shutdown()
			return
		}
		cw.hold(root)
		before := append([]byte{}, model...)
		nreq := len(fake.Reqs)
		if isWrite {
			p := make([]byte, length)
			for i := range p {
				p[i] = byte(0xA0 + i%91)
			}
			n, err := root.WriteAt(p, offset)
			// expected outcome from the fault plan
			cw.c11CheckWire(fake, nreq, uint64(offset), length, offered, true, firstBad, chunks)
			wantN, wantErr := length, false
			if firstBad >= 0 {
				// count what was acknowledged
				acked := 0
				for _, r := range fake.Reqs[nreq:] {
					if w, ok := r.Reply.(*rc.Rwrite); ok {
						acked += int(w.Count)
					}
					if _, ok := r.Reply.(*rc.Rlerror); ok {
						wantErr = true
					}
				}
				wantN = acked
			}
			if n != wantN || (err != nil) != wantErr {
				cw.find("wrong-count", "WriteAt", "WriteAt(len %d, off %d) returned (%d, %v); the server acknowledged %d bytes, error expected: %v; chunks %v", length, offset, n, err, wantN, wantErr, chunks)
			}
			// the remote file holds exactly p[:n] at offset
			if got := readModel(uint64(offset), n); !bytes.Equal(got, p[:n]) && n > 0 {
				cw.find("wrong-data-stored", "WriteAt", "after WriteAt returned %d the remote file does not hold p[:%d] at offset %d", n, n, offset)
			}
			_ = before
		} else {
			p := make([]byte, length)
			n, err := root.ReadAt(p, offset)
			cw.c11CheckWire(fake, nreq, uint64(offset), length, offered, false, firstBad, chunks)
			want := readModel(uint64(offset), length)
			if firstBad < 0 {
				if n != len(want) || !bytes.Equal(p[:n], want) {
					cw.find("wrong-data-read", "ReadAt", "ReadAt(len %d, off %d) returned %d bytes, the file has %d there (file size %d); chunks %v", length, offset, n, len(want), fileSize, chunks)
				}
				switch {
				case length > 0 && n == 0 && err != io.EOF:
					cw.find("missing-eof", "ReadAt", "ReadAt(len %d) at offset %d of a %d-byte file delivered nothing but returned %v, not io.EOF", length, offset, fileSize, err)
				case n == length && err == io.EOF && length > 0:
					cw.find("spurious-eof", "ReadAt", "ReadAt filled all %d bytes and still returned io.EOF", length)
				case err != nil && err != io.EOF:
					cw.find("spurious-error", "ReadAt", "ReadAt returned %v although every chunk was answered", err)
				}
			} else {
				// what was delivered must be a prefix of the truth
				if n > len(want) || !bytes.Equal(p[:n], want[:n]) {
					cw.find("wrong-data-read", "ReadAt", "ReadAt with a faulty chunk returned %d bytes that are not a prefix of the file content", n)
				}
				if badKind == 2 && err == nil {
					cw.find("error-swallowed", "ReadAt", "chunk %d was answered Rlerror but ReadAt returned nil error (n=%d)", firstBad, n)
				}
			}
		}
		cw.shutdown()
		rcx.Findings = append(rcx.Findings, fake.Findings...)
		rcx.Findings = append(rcx.Findings, fake.Mon.Findings...)
	})
	finishRun(rcx)
}

// c11CheckWire checks the chunk sequence on the wire.
func (cw *cliWorld) c11CheckWire(fake *FakeSrv, from int, offset uint64, length int, msize uint32, write bool, firstBad int, chunks []string) {
	next := offset
	total := 0
	k := 0
	stopped := false
	for _, r := range fake.Reqs[from:] {
		var off uint64
		var n int
		switch m := r.Msg.(type) {
		case *rc.Tread:
			if write {
				continue
			}
			off, n = m.Offset, int(m.Count)
			if 7+4+n > int(msize) {
				cw.find("chunk-too-large", "Tread", "Tread count %d: the Rread it solicits (%d bytes) cannot fit the announced msize %d", n, 11+n, msize)
			}
		case *rc.Twrite:
			if !write {
				continue
			}
			off, n = m.Offset, len(m.Data)
		default:
			continue
		}
		if stopped {
			cw.find("chunk-after-short-chunk", "io", "chunk %d (%d bytes at %d) was sent after chunk %d had been answered short or with an error; chunks %v", k, n, off, firstBad, chunks)
		}
		if off != next {
			cw.find("chunk-offset", "io", "chunk %d starts at offset %d, expected %d (contiguous, increasing); chunks %v", k, off, next, chunks)
		}
		if total+n > length {
			cw.find("chunk-overrun", "io", "chunks cover %d bytes of a %d-byte buffer; chunks %v", total+n, length, chunks)
		}
		if k > 0 && total == length && !stopped {
			// one operation: when every byte has been transferred there is
			// nothing left to ask the file
			cw.find("chunk-after-completion", "io", "chunk %d (%d bytes at %d) was sent although the %d bytes of the buffer had all been transferred; chunks %v", k, n, off, length, chunks)
		}
		// what did the server acknowledge?
		acked := n
		switch rep := r.Reply.(type) {
		case *rc.Rread:
			acked = len(rep.Data)
		case *rc.Rwrite:
			acked = int(rep.Count)
		case *rc.Rlerror:
			acked = 0
			stopped = true
		}
		if acked < n {
			stopped = true
		}
		next += uint64(acked)
		total += acked
		k++
	}
	cw.rcx.Count("chunks", k)
	if k > 1 {
		cw.rcx.Count("multi_chunk_calls", 1)
	}
}

func init() {
	Register(&Engine{
		ID:   "C11",
		Desc: "chunked I/O: client ReadAt/WriteAt of any size behave as one remote operation",
		Run:  runC11,
		Quick: 40000, Thorough: 6000000, QuickSecs: 60, ThorSecs: 1200,
		Rule:  "msize in {154,155,665,666,667,1024,4096,8192,64 KiB,1 MiB} (1/3 of runs: the server offers less than requested) x buffer length in {0,1,P-1,P,P+1,2P-1,2P,2P+1,3P+7,5P} for the payload size P x offset in {0, mid, EOF-1, EOF, EOF+1, 2^32-1, 2^32+1, 2^62} x file size {0,1,100,5000,70000} x read/write x (half of the runs) one chunk 0..5 answered short, empty or with Rlerror. Oracle: byte-slice model of the remote file (WriteAt stores exactly p[:n], n = len(p) when all is accepted; ReadAt returns the model's bytes, io.EOF iff fewer than len(p) were delivered because the file ended, always when 0 of a non-empty p, never with n = len(p)); wire: chunk offsets contiguous and increasing, every Tread small enough that its Rread fits the announced msize and every Twrite frame within it (wire monitor), nothing sent after the first short or failed chunk, returned count = bytes acknowledged. Input/configuration property: search over sizes and fault positions.",
		Real:   []string{"p9 client files (chunk, readAt, writeAt)", "p9.Client", "p9 wire codec"},
		Stub:   []string{"transport (simnet pipes)", "fake 9P server with a byte-slice file (refcodec)"},
		Owns:   []string{"C13", "C01"},
	})
}
