package sim

import (
	"fmt"

	"github.com/hugelgupf/p9/p9"
	"github.com/hugelgupf/p9/zzverif/refcodec"
	"github.com/hugelgupf/p9/zzverif/simfs"
	"github.com/hugelgupf/p9/zzverif/simnet"
	"github.com/hugelgupf/p9/zzverif/simrt"
)

// World is one simulated deployment: a real p9.Server on the instrumented
// backend with any number of connections driven by raw peers (engine E1), or
// by real p9 clients (engine E3).
type World struct {
	FS       *simfs.FS
	Srv      *p9.Server
	Conns    []*SrvConn
	Findings []Finding
}

// SrvConn is one connection to the server, driven by a raw 9P peer.
type SrvConn struct {
	ID     int
	W      *World
	Net    *simnet.Conn
	Mon    *ConnMon
	Handle *simrt.Task // task running Server.Handle
	// HandleReturned is set when Server.Handle returned.
	HandleReturned bool
	Sock           *simnet.SockReader // request direction through a real socket pair (C17)
	nextTag        uint16
	Msize          uint32
	Version        uint32
	closed         bool
}

func NewWorld(att p9.Attacher, fs *simfs.FS) *World {
	w := &World{FS: fs}
	liveFS = append(liveFS, fs)
	if att == nil {
		att = fs
	}
	w.Srv = p9.NewServer(att)
	return w
}

// Connect opens a new connection and starts Server.Handle on it.
func (w *World) Connect() *SrvConn { return w.connect(false) }

// ConnectSock is Connect with the request direction going through a real
// socket pair, so that the server's receive path is vecnet's recvmsg path.
func (w *World) ConnectSock() *SrvConn { return w.connect(true) }

func (w *World) connect(sock bool) *SrvConn {
	id := len(w.Conns)
	c := &SrvConn{ID: id, W: w, nextTag: 1}
	c.Net = simnet.NewConn(fmt.Sprintf("c%d", id))
	if sock {
		sr, err := simnet.NewSockReader(fmt.Sprintf("c%d.sock", id))
		if err != nil {
			panic("socketpair: " + err.Error())
		}
		c.Sock = sr
		c.Net.C2S = sr.Identity()
	}
	c.Mon = NewConnMon(fmt.Sprintf("c%d", id), c.Net)
	c.Mon.CheckReplies = true
	if c.Sock != nil {
		c.Sock.Obs = c.Mon
	}
	w.Conns = append(w.Conns, c)
	cur := simrt.Current()
	saved := cur.Local.Get("inherit.conn")
	cur.Local.Set("inherit.conn", c)
	c.Handle = simrt.GoNamed(fmt.Sprintf("srv%d", id), func() {
		simrt.Current().Role = "server"
		if c.Sock != nil {
			w.Srv.Handle(c.Sock, c.Net.B)
		} else {
			w.Srv.Handle(c.Net.B, c.Net.B)
		}
		c.HandleReturned = true
	})
	if saved == nil {
		cur.Local.Del("inherit.conn")
	} else {
		cur.Local.Set("inherit.conn", saved)
	}
	return c
}

// Tag returns a fresh tag.
func (c *SrvConn) Tag() uint16 {
	t := c.nextTag
	c.nextTag++
	if c.nextTag == refcodec.NoTag {
		c.nextTag = 1
	}
	return t
}

// Send writes one request frame and returns its record.
func (c *SrvConn) Send(tag uint16, m refcodec.Message) *FrameRec {
	n := len(c.Mon.Req.Frames)
	c.SendRaw(refcodec.Encode(tag, m))
	if len(c.Mon.Req.Frames) > n {
		return c.Mon.Req.Frames[len(c.Mon.Req.Frames)-1]
	}
	return nil
}

// SendRaw writes arbitrary bytes.
func (c *SrvConn) SendRaw(b []byte) {
	if c.Sock != nil {
		c.Mon.Req.feed(simrt.Current(), b)
		c.Sock.Feed(b)
		simrt.Yield("feed socket")
		return
	}
	c.Net.A.Write(b)
}

// Wait blocks until req has a reply (or the run deadlocks).
func (c *SrvConn) Wait(req *FrameRec) *FrameRec {
	simrt.Block("await reply", func() bool { return req.Reply != nil })
	return req.Reply
}

// RPC sends a request with a fresh tag and waits for its reply.
func (c *SrvConn) RPC(m refcodec.Message) refcodec.Message {
	req := c.Send(c.Tag(), m)
	rep := c.Wait(req)
	return rep.Msg
}

// Errno returns the error code if m is an Rlerror, else 0.
func Errno(m refcodec.Message) uint32 {
	if e, ok := m.(*refcodec.Rlerror); ok {
		return e.Ecode
	}
	return 0
}

// Version negotiates.
func (c *SrvConn) Negotiate(msize uint32, version string) *refcodec.Rversion {
	rep := c.Send(refcodec.NoTag, &refcodec.Tversion{Msize: msize, Version: version})
	r := c.Wait(rep)
	rv, _ := r.Msg.(*refcodec.Rversion)
	if rv != nil {
		c.Msize = rv.Msize
	}
	return rv
}

// Attach binds fid to the root (or aname).
func (c *SrvConn) Attach(fid uint32, aname string) refcodec.Message {
	return c.RPC(&refcodec.Tattach{Fid: fid, Afid: refcodec.NoFid, Uname: "u", Aname: aname, NUname: refcodec.NoUID})
}

// Close ends the connection from the client side.
func (c *SrvConn) Close() {
	if !c.closed {
		c.closed = true
		if c.Sock != nil {
			c.Sock.FinishFeed()
			simrt.Yield("finish socket feed")
			c.Net.S2C.CloseRead()
			return
		}
		c.Net.A.Close()
	}
}

// Shutdown closes every connection, waits for quiescence and runs the
// end-of-run oracles shared by all E1 engines.
func (w *World) Shutdown() {
	for _, c := range w.Conns {
		c.Close()
	}
	simrt.WaitQuiescent()
	w.Collect(true)
}

// Collect gathers findings from all monitors.
func (w *World) Collect(final bool) {
	for _, c := range w.Conns {
		w.Findings = append(w.Findings, c.Mon.Findings...)
		c.Mon.Findings = nil
		if final {
			if !c.HandleReturned {
				w.Findings = append(w.Findings, Finding{Prop: "C05", Oracle: "handle-not-returned", Key: "handle-not-returned",
					Detail: fmt.Sprintf("c%d: Server.Handle has not returned after the connection ended (%s)", c.ID, c.Handle.Desc())})
			}
		}
	}
	for _, v := range w.FS.Viol {
		w.Findings = append(w.Findings, Finding{Prop: v.Prop, Oracle: v.Oracle, Detail: v.Detail, Key: v.Key})
	}
	w.FS.Viol = nil
	if final {
		for _, v := range w.FS.LifecycleReport() {
			w.Findings = append(w.Findings, Finding{Prop: v.Prop, Oracle: v.Oracle, Detail: v.Detail, Key: v.Key})
		}
		// no task spawned by a connection may be left
		for _, t := range simrt.Tasks() {
			if t.Role == "server" && !t.Done() {
				w.Findings = append(w.Findings, Finding{Prop: "C05", Oracle: "goroutine-left", Key: "goroutine-left",
					Detail: fmt.Sprintf("server task %s still alive after all connections ended: %s", t.Name, t.Desc())})
			}
		}
	}
}
