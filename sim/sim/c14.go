package sim

import (
	"fmt"

	rc "github.com/hugelgupf/p9/zzverif/refcodec"
	"github.com/hugelgupf/p9/zzverif/simfs"
	"github.com/hugelgupf/p9/zzverif/simrt"
)

// C14 — Rflush only after the flushed request has stopped executing.
//
// Backend calls are attributed to requests through the task that consumed the
// request's bytes from the connection (p9 handles a request on the goroutine
// that received it) and through every task spawned by such a task before it
// consumes a frame of its own.  At the step where an Rflush(t) frame is complete on the
// wire, no backend call attributed to the request that held tag t may be
// running, and none may start afterwards.

type c14X struct {
	Name   string
	Build  func() rc.Message
	Method string // backend method to park in
	Nth    int    // park in the n-th such call of the request (0-based)
	Prep   func(c *SrvConn) bool
}

var c14Kinds = []c14X{
	{"read", func() rc.Message { return &rc.Tread{Fid: 1, Offset: 0, Count: 8} }, "ReadAt", 0,
		func(c *SrvConn) bool { return c.WalkTo(0, 1, "/b") && Errno(c.RPC(&rc.Tlopen{Fid: 1, Flags: 2})) == 0 }},
	{"write", func() rc.Message { return &rc.Twrite{Fid: 1, Offset: 0, Data: []byte("data")} }, "WriteAt", 0,
		func(c *SrvConn) bool { return c.WalkTo(0, 1, "/b") && Errno(c.RPC(&rc.Tlopen{Fid: 1, Flags: 2})) == 0 }},
	{"getattr", func() rc.Message { return &rc.Tgetattr{Fid: 1, Mask: rc.GetattrAll} }, "GetAttr", 0,
		func(c *SrvConn) bool { return c.WalkTo(0, 1, "/b") }},
	{"walk3", func() rc.Message { return &rc.Twalk{Fid: 0, NewFid: 1, Names: []string{"a", "b", "c"}} }, "WALK", 1,
		func(c *SrvConn) bool { return true }},
	{"rename", func() rc.Message { return &rc.Trename{Fid: 1, Dfid: 2, Name: "moved"} }, "RenameAt", 0,
		func(c *SrvConn) bool { return c.WalkTo(0, 1, "/b") && c.WalkTo(0, 2, "/d") }},
	{"renameat-notify", func() rc.Message {
		return &rc.Trenameat{OldDirFid: 0, OldName: "a", NewDirFid: 2, NewName: "a2"}
	}, "Renamed", 0,
		func(c *SrvConn) bool { return c.WalkTo(0, 1, "/a/b/c") && c.WalkTo(0, 2, "/d") && c.WalkTo(0, 3, "/a") }},
	{"create", func() rc.Message { return &rc.Tlcreate{Fid: 1, Name: "newf", Flags: 2, Mode: 0o644} }, "Create", 0,
		func(c *SrvConn) bool { return c.WalkTo(0, 1, "/d") }},
	{"unlinkat", func() rc.Message { return &rc.Tunlinkat{DirFid: 0, Name: "b"} }, "UnlinkAt", 0,
		func(c *SrvConn) bool { return true }},
	{"clunk", func() rc.Message { return &rc.Tclunk{Fid: 1} }, "Close", 0,
		func(c *SrvConn) bool { return c.WalkTo(0, 1, "/b") }},
	// a walk onto a fid number that is bound: the replaced file's Close is
	// made on behalf of the walk
	{"walk-replace", func() rc.Message { return &rc.Twalk{Fid: 0, NewFid: 1, Names: []string{"a"}} }, "Close", 0,
		func(c *SrvConn) bool { return c.WalkTo(0, 1, "/b") }},
	{"readdir", func() rc.Message { return &rc.Treaddir{Fid: 1, Offset: 0, Count: 500} }, "Readdir", 0,
		func(c *SrvConn) bool { return c.WalkTo(0, 1, "/a") && Errno(c.RPC(&rc.Tlopen{Fid: 1, Flags: 0})) == 0 }},
}

var c14Timings = []string{"during", "pipelined", "after"}
var c14Variants = []string{"one", "two", "chain3", "self", "idle", "with-traffic", "answered-with-protocol-error", "lower-tag"}

func c14Cases() int { return len(c14Kinds) * len(c14Timings) * len(c14Variants) }

type flushWatch struct {
	fs       *simfs.FS
	flushed  simrt.PMap[*FrameRec, bool] // requests whose tag has been acknowledged as flushed
	begun    simrt.PMap[*FrameRec, bool] // requests for which a backend call has begun
	targetOf simrt.PMap[*FrameRec, *FrameRec]
	rcx      *RunCtx
	off      bool
}

func (fw *flushWatch) install(c *SrvConn) {
	c.Mon.OnReply = func(req, rep *FrameRec) {
		if fw.off || rep.Type != rc.TypeRflush {
			return
		}
		x := fw.targetOf.Get(req)
		if x == nil || !fw.begun.Get(x) {
			// the statement binds the server only once the request is executing
			return
		}
		for _, call := range fw.fs.ActiveCalls() {
			if call.Req == x {
				fw.rcx.Find("C14", "rflush-while-executing", call.Method, "Rflush for tag %d written while backend call %s made for %s is still running", x.Tag, call, x)
			}
		}
		fw.flushed.Set(x, true)
	}
}

func (fw *flushWatch) onEnter(call *simfs.Call) {
	if fw.off {
		return
	}
	if x, ok := call.Req.(*FrameRec); ok && !fw.begun.Get(x) {
		fw.begun.Set(x, true)
	}
	if x, ok := call.Req.(*FrameRec); ok && fw.flushed.Get(x) {
		fw.rcx.Find("C14", "call-after-rflush", call.Method, "backend call %s started for %s after the Rflush naming its tag was sent", call, x)
	}
}

func runC14(rcx *RunCtx) {
	cfg := simCfg(rcx)
	p := rcx.Plan
	var kind c14X
	var timing, variant string
	if rcx.Index < c14Cases() {
		k := rcx.Index
		kind = c14Kinds[k%len(c14Kinds)]
		k /= len(c14Kinds)
		timing = c14Timings[k%len(c14Timings)]
		k /= len(c14Timings)
		variant = c14Variants[k%len(c14Variants)]
	} else {
		kind = c14Kinds[p.Choose(len(c14Kinds))]
		timing = c14Timings[p.Choose(len(c14Timings))]
		variant = c14Variants[p.Choose(len(c14Variants))]
	}
	wga := p.Choose(2) == 1
	rcx.Label = fmt.Sprintf("%s/%s/%s", kind.Name, timing, variant)
	rcx.Sample = map[string]interface{}{"flushed_request": kind.Name, "flush_arrives": timing, "variant": variant, "walkgetattr_enosys": wga}
	rcx.Res = simrt.Run(cfg, rcx.Sched, func() {
		fs := simfs.New()
		fs.WalkGetAttrENOSYS = wga
		buildWorkloadTree(fs, 1, false)
		w := NewWorld(nil, fs)
		c := w.Connect()
		fw := &flushWatch{fs: fs, rcx: rcx}
		fw.install(c)
		fs.OnEnter = fw.onEnter
		if !c.Start(8192, "9P2000.L.Google.7") || !kind.Prep(c) || !c.WalkTo(0, 7, "/d/b") {
			rcx.Find("C14", "setup", "setup", "setup failed")
			return
		}
		var held *simfs.Call
		seen := 0
		var reqX *FrameRec
		park := timing != "after"
		fs.Hold = func(call *simfs.Call) bool {
			if !park || held != nil || reqX == nil || call.Req != reqX {
				return false
			}
			m := call.Method
			if kind.Method == "WALK" {
				if (m != "Walk" && m != "WalkGetAttr") || len(call.Names) == 0 {
					return false
				}
			} else if m != kind.Method {
				return false
			}
			if seen < kind.Nth {
				seen++
				return false
			}
			held = call
			return true
		}
		// the hold predicate needs reqX before the server reads it: Send
		// returns once the frame is in the pipe, no server step in between
		tx := c.Tag()
		reqX = c.Send(tx, kind.Build())
		sendFlush := func(old uint16, target *FrameRec) *FrameRec {
			f := c.Send(c.Tag(), &rc.Tflush{OldTag: old})
			if target != nil {
				fw.targetOf.Set(f, target)
			}
			return f
		}
		var flushes []*FrameRec
		switch timing {
		case "during":
			simrt.WaitQuiescent()
			if held == nil {
				rcx.Trivial = true
			}
		case "after":
			simrt.WaitQuiescent()
			if reqX.Reply == nil {
				rcx.Find("C14", "no-reply", kind.Name, "%s not answered", reqX)
			}
		}
		switch variant {
		case "lower-tag":
			// the flush travels under a recycled tag that is numerically
			// below the tag of the request it names (tag 1 was the attach's)
			f := c.Send(1, &rc.Tflush{OldTag: tx})
			fw.targetOf.Set(f, reqX)
			flushes = append(flushes, f)
		case "one", "with-traffic":
			flushes = append(flushes, sendFlush(tx, reqX))
		case "two":
			flushes = append(flushes, sendFlush(tx, reqX), sendFlush(tx, reqX))
		case "chain3":
			f1 := sendFlush(tx, reqX)
			f2 := sendFlush(f1.Tag, f1)
			f3 := sendFlush(f2.Tag, f2)
			flushes = append(flushes, f1, f2, f3)
		case "self":
			t := c.Tag()
			f := c.Send(t, &rc.Tflush{OldTag: t})
			simrt.WaitQuiescent()
			if f.Reply == nil || f.Reply.Type != rc.TypeRflush {
				rcx.Find("C14", "self-flush-not-answered", "self", "a Tflush naming its own tag was not answered at once (X %s parked=%v)", kind.Name, held != nil)
			}
			flushes = append(flushes, sendFlush(tx, reqX))
		case "answered-with-protocol-error":
			// a tag that was answered from the protocol-error path is as idle
			// as any other answered tag, and free for re-use
			t := c.Tag()
			bad := c.Send(t, &rc.Opaque{Type: []uint8{3, 54, 211}[rcx.Index%3], Body: []byte{1, 2, 3}})
			simrt.WaitQuiescent()
			if bad == nil || bad.Reply == nil || bad.Reply.Type != rc.TypeRlerror {
				rcx.Find("C14", "setup", "protocol-error", "an undecodable frame was not answered with Rlerror")
			}
			f := c.Send(c.Tag(), &rc.Tflush{OldTag: t})
			simrt.WaitQuiescent()
			if f.Reply == nil || f.Reply.Type != rc.TypeRflush {
				rcx.Find("C14", "idle-flush-not-answered", "answered-with-protocol-error", "a Tflush naming a tag that was answered with a protocol error was not answered at once (X %s parked=%v)", kind.Name, held != nil)
			}
			again := c.Send(t, &rc.Tstatfs{Fid: 7})
			simrt.WaitQuiescent()
			if again.Reply == nil {
				rcx.Find("C14", "tag-not-released", "answered-with-protocol-error", "a request re-using the tag of a frame that was answered with a protocol error got no reply (X %s parked=%v)", kind.Name, held != nil)
			}
			flushes = append(flushes, sendFlush(tx, reqX))
		case "idle":
			f := c.Send(c.Tag(), &rc.Tflush{OldTag: 4242})
			simrt.WaitQuiescent()
			if f.Reply == nil || f.Reply.Type != rc.TypeRflush {
				rcx.Find("C14", "idle-flush-not-answered", "idle", "a Tflush naming an idle tag was not answered at once (X %s parked=%v)", kind.Name, held != nil)
			}
			flushes = append(flushes, sendFlush(tx, reqX))
		}
		var traffic *FrameRec
		if variant == "with-traffic" {
			traffic = c.Send(c.Tag(), &rc.Tstatfs{Fid: 7})
		}
		simrt.WaitQuiescent()
		if held != nil && held.Active {
			rcx.Count("flush_while_parked", 1)
			// (whether an Rflush naming X is out is judged at the step it was
			// written: it is legal only if X had not begun executing then)
			if traffic != nil && traffic.Reply == nil {
				rcx.Find("C06", "delayed-by-unordered-request", "flush-traffic", "Tstatfs on another fid not answered while %s is parked and a flush is waiting", kind.Name)
			}
			held.Release()
			simrt.WaitQuiescent()
		}
		if timing == "after" {
			// answered tag: every flush must be answered without further ado
			rcx.Count("flush_of_answered_tag", 1)
		}
		park = false
		for _, f := range flushes {
			if f.Reply == nil {
				rcx.Find("C14", "flush-not-answered", variant, "%s was never answered", f)
			} else if f.Reply.Type != rc.TypeRflush {
				rcx.Find("C14", "flush-wrong-reply", variant, "%s answered by %s", f, f.Reply)
			}
		}
		if reqX.Reply == nil {
			rcx.Find("C14", "flushed-request-lost-reply", kind.Name, "the flushed request %s never got its own reply", reqX)
		} else if reqX.NReplies != 1 {
			rcx.Find("C14", "flushed-request-duplicate-reply", kind.Name, "the flushed request %s got %d replies", reqX, reqX.NReplies)
		} else if _, isErr := reqX.Reply.Msg.(*rc.Rlerror); isErr {
			rcx.Find("C14", "flushed-request-cancelled", kind.Name, "the flushed request %s was answered %s although nothing was wrong with it", reqX, reqX.Reply)
		}
		fw.off = true
		w.Shutdown()
		rcx.Findings = append(rcx.Findings, w.Findings...)
	})
	finishRun(rcx)
}

func init() {
	Register(&Engine{
		ID:   "C14",
		Desc: "flush ordering: Rflush only after the flushed request stopped executing",
		Run:  runC14,
		Directed: func(string) int { return c14Cases() },
		Quick:    32000, Thorough: 6000000, QuickSecs: 60, ThorSecs: 1200,
		Rule:  fmt.Sprintf("directed: %d flushed request kinds (read, write, getattr, 3-component walk parked at component 2, rename parked in RenameAt, renameat parked in a Renamed notification, create, unlinkat, clunk parked in Close, walk onto a bound fid number parked in the replaced file's Close, readdir) x flush arrival {while parked, pipelined right behind, after completion} x {one flush, two flushes of the tag, chain of three, plus a self-flush, plus an idle-tag flush, plus unrelated traffic, plus flush and re-use of a tag that was answered from the protocol-error path, a flush under a recycled tag numerically below its target's}; random: the same dimensions drawn from the tape with varied schedules. Oracle: backend calls attributed to requests via the task that consumed the request's bytes; at the step an Rflush frame completes, no call of the flushed request is between enter and exit and none is entered later; with X parked and the system quiescent no Rflush naming it exists; idle/own/answered tags are answered at quiescence without releasing anything; X's own reply arrives exactly once and is not an error. Non-trivial = X actually parked (timing 'during'/'pipelined') or was answered before the flush ('after').", len(c14Kinds)),
		Assume: []string{"a backend call is made on behalf of the request whose frame its task consumed last, or whose handler task spawned it"},
		Real:   []string{"p9.Server", "p9 tag table / handlers", "p9 wire codec"},
		Stub:   []string{"transport (simnet pipes)", "backend tree (simfs)", "raw 9P peer (refcodec)"},
	})
}
