package sim

import (
	"encoding/binary"
	"io"

	"github.com/hugelgupf/p9/p9"
	rc "github.com/hugelgupf/p9/zzverif/refcodec"
	"github.com/hugelgupf/p9/zzverif/simfs"
	"github.com/hugelgupf/p9/zzverif/simnet"
	"github.com/hugelgupf/p9/zzverif/simrt"
)

// E3 is engine E3: the real p9.Client talking to the real p9.Server over
// simnet.  A relay sits in between and forwards whole frames; it rewrites the
// version string of Tversion so that the pair negotiates any version 0..7
// (the client always asks for the highest it knows).
type E3 struct {
	FS        *simfs.FS
	Srv       *p9.Server
	Client    *p9.Client
	CliNet    *simnet.Conn // client <-> relay
	SrvNet    *simnet.Conn // relay <-> server
	CliMon    *ConnMon
	SrvMon    *ConnMon
	keep      []p9.File
	Version   int
	handleRet bool
}

func relay(from io.Reader, to io.Writer, rewrite func(frame []byte) []byte, closeTo func()) {
	for {
		hdr := make([]byte, 7)
		if _, err := io.ReadFull(from, hdr); err != nil {
			closeTo()
			return
		}
		size := binary.LittleEndian.Uint32(hdr)
		if size < 7 || size > 8<<20 {
			closeTo()
			return
		}
		frame := make([]byte, size)
		copy(frame, hdr)
		if _, err := io.ReadFull(from, frame[7:]); err != nil {
			closeTo()
			return
		}
		if rewrite != nil {
			frame = rewrite(frame)
		}
		if _, err := to.Write(frame); err != nil {
			return
		}
	}
}

// NewE3 builds the stack and negotiates.  att may be nil (then fs is the attacher).
func NewE3(att p9.Attacher, fs *simfs.FS, version int, msize uint32, seg int) (*E3, error) {
	e := &E3{FS: fs, Version: version}
	liveFS = append(liveFS, fs)
	if att == nil {
		att = fs
	}
	e.Srv = p9.NewServer(att)
	e.CliNet = simnet.NewConn("cli")
	e.SrvNet = simnet.NewConn("srv")
	e.CliNet.S2C.Seg, e.SrvNet.C2S.Seg = seg, seg
	e.CliMon = NewConnMon("cli", e.CliNet)
	e.CliMon.CheckReqMsize = true
	e.SrvMon = NewConnMon("srv", e.SrvNet)
	e.SrvMon.CheckReplies = true
	cur := simrt.Current()
	cur.Local.Set("inherit.conn", e)
	simrt.GoNamed("srv", func() {
		simrt.Current().Role = "server"
		e.Srv.Handle(e.SrvNet.B, e.SrvNet.B)
		e.handleRet = true
	})
	cur.Local.Del("inherit.conn")
	simrt.GoNamed("relay-up", func() {
		simrt.Current().Role = "relay"
		relay(e.CliNet.B, e.SrvNet.A, func(f []byte) []byte {
			if f[4] == rc.TypeTversion {
				_, m, _, _ := rc.Decode(f)
				if tv, ok := m.(*rc.Tversion); ok {
					tv.Version = versionStr(version)
					return rc.Encode(binary.LittleEndian.Uint16(f[5:7]), tv)
				}
			}
			return f
		}, func() { e.SrvNet.A.Close() })
	})
	simrt.GoNamed("relay-down", func() {
		simrt.Current().Role = "relay"
		relay(e.SrvNet.A, e.CliNet.B, nil, func() { e.CliNet.B.Close() })
	})
	cl, err := p9.NewClient(e.CliNet.A, p9.WithMessageSize(msize))
	if err != nil {
		e.CliNet.A.Close()
		return e, err
	}
	e.Client = cl
	return e, nil
}

func (e *E3) Hold(f p9.File) p9.File {
	if f != nil {
		e.keep = simrt.Push(e.keep, f)
	}
	return f
}

// Shutdown closes every file (through the wire), then the connection, and
// waits for the server side to finish.
func (e *E3) Shutdown() []Finding {
	for _, f := range e.keep {
		f.Close()
	}
	e.CliNet.A.Close()
	simrt.WaitQuiescent()
	var out []Finding
	out = append(out, e.CliMon.Findings...)
	out = append(out, e.SrvMon.Findings...)
	if e.FS != nil {
		for _, v := range e.FS.Viol {
			out = append(out, Finding{Prop: v.Prop, Oracle: v.Oracle, Detail: v.Detail, Key: v.Key})
		}
		for _, v := range e.FS.LifecycleReport() {
			out = append(out, Finding{Prop: v.Prop, Oracle: v.Oracle, Detail: v.Detail, Key: v.Key})
		}
	}
	if !e.handleRet {
		out = append(out, Finding{Prop: "C05", Oracle: "handle-not-returned", Key: "handle-not-returned", Detail: "Server.Handle has not returned after the client closed the connection"})
	}
	return out
}
