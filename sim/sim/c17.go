package sim

import (
	"bytes"
	"fmt"
	"sort"
	"strings"

	rc "github.com/hugelgupf/p9/zzverif/refcodec"
	"github.com/hugelgupf/p9/zzverif/simfs"
	"github.com/hugelgupf/p9/zzverif/simnet"
	"github.com/hugelgupf/p9/zzverif/simrt"
)

// C17 — stream segmentation independence on both receive paths.
//
// A batch of independent requests (with and without payloads) is delivered
// (a) whole and lock-step — the reference — and (b) pipelined as one byte
// stream cut into reads by a plan: every single cut and every pair of cuts for
// short streams, tape-chosen cuts, single bytes.  Both through the generic
// io.Reader path (simnet) and through a real socket pair (vecnet's
// recvmsg/iovec path).  Per request, the reply and the backend calls made for
// it (with their arguments and payload bytes) must be identical.  A stream
// that ends inside a frame ends the connection; no call for the partial frame.

type c17Result struct {
	reply string
	calls []string
}

func c17Batch(ch func(int) int) []rc.Message {
	n := 2 + ch(5)
	var out []rc.Message
	for i := 0; i < n; i++ {
		fid := uint32(20 + i)
		switch ch(10) {
		case 8:
			// a frame the server skips: unknown type, any body
			body := make([]byte, []int{0, 1, 5, 64, 500, 3000}[ch(6)])
			for k := range body {
				body[k] = byte(k*7 + i)
			}
			out = append(out, &rc.Opaque{Type: []uint8{3, 99, 211, 255}[ch(4)], Body: body})
		case 9:
			// a frame the server rejects: known type, body too short or
			// inconsistent with its own count
			switch ch(3) {
			case 0:
				out = append(out, &rc.Opaque{Type: rc.TypeTwalk, Body: []byte{1, 0}})
			case 1:
				out = append(out, &rc.Opaque{Type: rc.TypeTwrite, Body: []byte{1, 0, 0, 0, 9}})
			case 2:
				b := rc.EncodeBody(&rc.Twrite{Fid: fid, Offset: 3, Data: make([]byte, 40+ch(400))})
				out = append(out, &rc.Opaque{Type: rc.TypeTwrite, Body: b[:len(b)-1-ch(30)]})
			}
		case 0, 1:
			sz := []int{0, 1, 2, 63, 64, 65, 500, 4000}[ch(8)]
			d := make([]byte, sz)
			for k := range d {
				d[k] = byte(k*3 + i)
			}
			out = append(out, &rc.Twrite{Fid: fid, Offset: uint64(ch(9)), Data: d})
		case 2:
			out = append(out, &rc.Tread{Fid: fid, Offset: uint64(ch(5)), Count: uint32(ch(300))})
		case 3:
			out = append(out, &rc.Twalk{Fid: 0, NewFid: uint32(40 + i), Names: [][]string{{"a"}, {"a", "b"}, {"a", "d"}, {}, {"nope"}}[ch(5)]})
		case 4:
			out = append(out, &rc.Tmkdir{Dfid: 0, Name: fmt.Sprintf("m%d-%s", i, string(bytes.Repeat([]byte{'x'}, ch(40)))), Mode: uint32(0o700 + ch(64))})
		case 5:
			out = append(out, &rc.Tsetattr{Fid: fid, Valid: rc.SetattrMode | rc.SetattrSize, Mode: uint32(ch(0o1000)), Size: uint64(ch(50))})
		case 6:
			out = append(out, &rc.Tgetattr{Fid: fid, Mask: uint64(ch(1 << 14))})
		case 7:
			out = append(out, &rc.Tsymlink{Dfid: 0, Name: fmt.Sprintf("s%d", i), Target: string(bytes.Repeat([]byte{'t'}, ch(200)))})
		}
	}
	return out
}

// halfClose: 0 = leave the stream open, 1 = the sender closes its writing half
// right after the last byte (plain EOF on the next read), 2 = the same, and the
// reader hands over the final bytes together with io.EOF (legal for an
// io.Reader; generic path only).
func c17Exec(rcx *RunCtx, sched *simrt.Tape, batch []rc.Message, sock bool, seg int, cuts []int64, lockstep bool, endAt int, trace bool, halfClose int) (map[int]c17Result, []Finding, *simrt.Result, int) {
	res := map[int]c17Result{}
	var findings []Finding
	cutCalls, cutComplete := -1, 0
	cfg := simrt.Config{Trace: trace, MaxSteps: 400000, Stick: 1}
	splitReads := 0
	r := simrt.Run(cfg, sched, func() {
		fs := simfs.New()
		c04Tree(fs)
		for i := 0; i < 8; i++ {
			fs.MkPath(fmt.Sprintf("/f%d", i))
		}
		w := NewWorld(nil, fs)
		var c *SrvConn
		if sock {
			c = w.ConnectSock()
		} else {
			c = w.Connect()
		}
		if !c.Start(8192, "9P2000.L.Google.7") {
			findings = append(findings, Finding{Prop: "C17", Oracle: "setup", Key: "setup", Detail: "setup failed"})
			return
		}
		for i := 0; i < 8; i++ {
			if !c.WalkTo(0, uint32(20+i), fmt.Sprintf("/f%d", i)) || Errno(c.RPC(&rc.Tlopen{Fid: uint32(20 + i), Flags: 2})) != 0 {
				findings = append(findings, Finding{Prop: "C17", Oracle: "setup", Key: "setup", Detail: "setup failed"})
				return
			}
		}
		base := c.Net.C2S.Consumed()
		nrepBase := len(c.Mon.Rep.Frames)
		callBase := len(fs.Calls)
		var reqs []*FrameRec
		if lockstep {
			for i, m := range batch {
				req := c.Send(uint16(100+i), m)
				simrt.WaitQuiescent()
				reqs = append(reqs, req)
			}
		} else {
			var stream []byte
			for i, m := range batch {
				stream = append(stream, rc.Encode(uint16(100+i), m)...)
			}
			if endAt >= 0 && endAt < len(stream) {
				stream = stream[:endAt]
			}
			abs := make([]int64, len(cuts))
			for i, k := range cuts {
				abs[i] = base + k
			}
			if sock {
				c.Sock.Seg, c.Sock.Cuts = seg, abs
			} else {
				c.Net.C2S.Seg, c.Net.C2S.Cuts = seg, abs
			}
			nf := len(c.Mon.Req.Frames)
			c.SendRaw(stream)
			if endAt >= 0 {
				// (generic path: the bytes before the cut may arrive together
				// with the EOF, which must not make them a whole message)
				simrt.Fault("transport.stream-ends-inside-a-frame")
				if !sock {
					c.Net.C2S.EOFWithData = halfClose == 2
					if halfClose == 2 {
						simrt.Fault("transport.last-bytes-together-with-eof")
					}
					c.Net.C2S.CloseWrite() // at once: the receiver has not read anything yet
				}
				c.Close()
			} else if halfClose > 0 && !sock {
				c.Net.C2S.EOFWithData = halfClose == 2
				if halfClose == 2 {
					simrt.Fault("transport.last-bytes-together-with-eof")
				}
				c.Net.C2S.CloseWrite()
			}
			simrt.WaitQuiescent()
			reqs = c.Mon.Req.Frames[nf:]
			if !sock {
				splitReads = c.Net.C2S.SplitReads
			} else {
				splitReads = c.Sock.Reads + c.Sock.RawReads
			}
		}
		for _, req := range reqs {
			if req == nil {
				continue
			}
			i := int(req.Tag) - 100
			var cr c17Result
			if req.Reply != nil {
				// inode numbers depend on the order concurrent creations happen in
				cr.reply = (&normaliser{ids: map[uint64]uint64{}}).msg(req.Reply.Msg)
				if rr, ok := req.Reply.Msg.(*rc.Rread); ok {
					cr.reply += fmt.Sprintf(" %x", rr.Data)
				}
			} else {
				cr.reply = "<none>"
			}
			for _, cl := range fs.Calls {
				if cl.Req == req && cl.Method != "Close" {
					desc := cl.String()
					if k := strings.Index(desc, " "); k >= 0 {
						desc = desc[k+1:] // drop the global call number
					}
					cr.calls = append(cr.calls, fmt.Sprintf("%s data=%x mode=%o setattr=%+v mask=%+v", desc, cl.Data, cl.Mode, cl.SetAttr, cl.Mask))
				}
			}
			sort.Strings(cr.calls)
			res[i] = cr
		}
		if endAt >= 0 {
			// nothing may have been done for the partial frame
			complete := 0
			off := 0
			for _, m := range batch {
				off += len(rc.Encode(0, m))
				if off <= endAt {
					complete++
				}
			}
			for i := range res {
				if i >= complete && (res[i].reply != "<none>" || len(res[i].calls) > 0) {
					findings = append(findings, Finding{Prop: "C17", Oracle: "truncated-message-delivered", Key: "truncated-message-delivered",
						Detail: fmt.Sprintf("the stream ended at byte %d, inside frame %d, yet that frame produced reply %s / calls %v", endAt, i, res[i].reply, res[i].calls)})
				}
			}
			if !c.HandleReturned {
				findings = append(findings, Finding{Prop: "C17", Oracle: "no-connection-error", Key: "no-connection-error", Detail: fmt.Sprintf("the stream ended at byte %d inside a frame but Server.Handle did not return", endAt)})
			}
			// The partial frame is no frame to the monitor, so whatever was
			// done for it shows as work nobody asked for: more replies than
			// complete frames, or more backend calls than the complete frames
			// account for in the whole, lock-step delivery.
			// (an Rlerror for the partial frame is no delivery: a receiver
			// may reject a frame on its header alone)
			nr := 0
			for _, fr := range c.Mon.Rep.Frames[nrepBase:] {
				if fr.Type != rc.TypeRlerror {
					nr++
				}
			}
			if nr > complete {
				findings = append(findings, Finding{Prop: "C17", Oracle: "truncated-message-delivered", Key: "truncated-message-delivered",
					Detail: fmt.Sprintf("the stream ended at byte %d, after %d complete frames, yet %d requests were answered with success", endAt, complete, nr)})
			}
			ncalls := 0
			for _, cl := range fs.Calls[callBase:] {
				if cl.Method != "Close" {
					ncalls++
				}
			}
			cutCalls, cutComplete = ncalls, complete
		}
		w.Shutdown()
		for _, f := range w.Findings {
			findings = append(findings, f)
		}
		if c.Sock != nil {
			c.Sock.Close()
		}
	})
	if cutCalls >= 0 {
		res[-1] = c17Result{reply: fmt.Sprint(cutComplete), calls: make([]string, cutCalls)}
	}
	return res, findings, r, splitReads
}

func runC17(rcx *RunCtx) {
	if rcx.Index%5 == 4 {
		runC17Client(rcx)
		return
	}
	p := rcx.Plan
	batch := c17Batch(p.Choose)
	total := 0
	for _, m := range batch {
		total += len(rc.Encode(0, m))
	}
	sock := p.Choose(2) == 1
	var seg int
	var cuts []int64
	endAt := -1
	mode := p.Choose(7)
	halfClose := 0
	switch mode {
	case 0:
		seg = simnet.SegByte
	case 1:
		seg = simnet.SegRandom
	case 2, 3: // planned cuts: one or two positions (systematic when the index is low)
		seg = simnet.SegPlan
		k := p.Choose(total)
		cuts = []int64{int64(k)}
		if mode == 3 {
			cuts = append(cuts, int64(k+1+p.Choose(total)))
		}
		// aim at the interesting places: inside the first header, header/fixed, fixed/payload
		if p.Choose(2) == 0 {
			first := len(rc.Encode(0, batch[0]))
			cuts[0] = int64([]int{1, 4, 6, 7, 8, first - 1, first, first + 1, first + 7}[p.Choose(9)])
		}
	case 4:
		seg = simnet.SegWhole // several frames in one read
	case 5:
		seg = []int{simnet.SegRandom, simnet.SegWhole}[p.Choose(2)]
		endAt = 1 + p.Choose(total-1)
		halfClose = 1 + p.Choose(2)
	case 6: // complete stream, then end of stream (with or without the final bytes in the same Read)
		seg = []int{simnet.SegWhole, simnet.SegRandom, simnet.SegByte}[p.Choose(3)]
		halfClose = 1 + p.Choose(2)
		sock = false
	}
	path := "io.Reader"
	if sock {
		path = "socketpair/recvmsg"
	}
	rcx.Label = fmt.Sprintf("server %s mode=%d", path, mode)
	rcx.Sample = map[string]interface{}{"receiver": "server", "path": path, "frames": len(batch), "stream_bytes": total, "segmentation": seg, "cuts": cuts, "stream_ends_at": endAt, "half_close": halfClose}
	ref, f0, _, _ := c17Exec(rcx, simrt.NewTape(7), batch, false, simnet.SegWhole, nil, true, -1, false, 0)
	got, f1, res, splits := c17Exec(rcx, rcx.Sched, batch, sock, seg, cuts, false, endAt, rcx.Trace, halfClose)
	rcx.Res = res
	rcx.Findings = append(rcx.Findings, f0...)
	rcx.Findings = append(rcx.Findings, f1...)
	rcx.Count("reads_or_splits", splits)
	if cut, ok := got[-1]; ok {
		// calls the complete frames make when delivered whole
		var complete int
		fmt.Sscan(cut.reply, &complete)
		want := 0
		for i := 0; i < complete; i++ {
			want += len(ref[i].calls)
		}
		if len(cut.calls) > want {
			rcx.Find("C17", "truncated-message-delivered", "calls", "the stream ended at byte %d over %s (end-of-stream mode %d), after %d complete frames that make %d backend calls when delivered whole; the backend saw %d calls", endAt, path, halfClose, complete, want, len(cut.calls))
		}
	}
	if endAt < 0 {
		for i := range batch {
			a, b := ref[i], got[i]
			if a.reply != b.reply {
				rcx.Find("C17", "reply-differs", rc.TypeName(batch[i].MsgType()), "%s over %s (segmentation %d, cuts %v, end-of-stream mode %d): reply %s, but delivered whole it is %s", rc.String(batch[i]), path, seg, cuts, halfClose, b.reply, a.reply)
				break
			}
			if fmt.Sprint(a.calls) != fmt.Sprint(b.calls) {
				rcx.Find("C17", "delivered-message-differs", rc.TypeName(batch[i].MsgType()), "%s over %s (segmentation %d, cuts %v): backend saw %v, but delivered whole it sees %v", rc.String(batch[i]), path, seg, cuts, b.calls, a.calls)
				break
			}
		}
	}
	finishRun(rcx)
}

func init() {
	Register(&Engine{
		ID:   "C17",
		Desc: "stream segmentation independence on the io.Reader and the socket (recvmsg) receive paths",
		Run:  runC17,
		Quick: 48000, Thorough: 3000000, QuickSecs: 60, ThorSecs: 1500,
		Rule:  "batches of 2-6 independent requests with and without payloads (Twrite 0..4000 bytes, Tread, Twalk 0-2 names, Tmkdir/Tsymlink with strings of 0..200 bytes, Tsetattr, Tgetattr with random masks, and well-delimited frames the server skips or rejects: unknown types with bodies of 0..3000 bytes, known types with short or inconsistent bodies) delivered as one byte stream cut into reads: single bytes, tape-chosen cuts, one or two planned cuts (aimed at offsets 1,4,6,7,8 and around the first frame boundary half of the time), several frames per read, streams ending at a tape-chosen offset (the last bytes alone or together with the EOF), and complete streams whose end arrives as a separate (0, EOF) read or together with the final bytes (n, EOF); each through the generic io.Reader path (simnet) and a real AF_UNIX socket pair (vecnet recvmsg/iovec path), server and client as receivers. Oracle: per request, the reply and the backend calls with their arguments and payload bytes equal those of a whole, lock-step reference delivery; a stream ending inside a frame ends the connection with no reply and no backend call for the partial frame.",
		Assume: []string{"requests of a batch touch disjoint fids and names, so concurrent handling cannot change their individual results"},
		Real:   []string{"p9 recv path", "vecnet.Buffers.ReadFrom (generic and recvmsg paths)", "kernel socket pair (socket mode)", "p9.Server"},
		Stub:   []string{"transport for the reply direction (simnet)", "backend tree (simfs)", "raw 9P peer (refcodec)"},
	})
}
