package sim

import (
	"bufio"
	"encoding/json"
	"flag"
	"fmt"
	"github.com/hugelgupf/p9/zzverif/simfs"
	"io"
	"os"
	"os/exec"
	"path/filepath"
	"runtime"
	"sort"
	"strconv"
	"strings"
	"sync"
	"time"

	"github.com/hugelgupf/p9/zzverif/simrt"
)

// RunCtx is what an engine gets for one simulated run.
type RunCtx struct {
	Prop  string
	Tier  string
	Index int // run index; low indices select directed scenarios
	Plan  *simrt.Tape
	Sched *simrt.Tape
	Trace bool
	// outputs
	Findings []Finding
	Res      *simrt.Result
	Label    string         // scenario label (for distinct counting and samples)
	Counters map[string]int // per-run counters, summed by the driver
	Sample   interface{}    // a description of the case, for evidence samples
	Trivial  bool           // the run exercised nothing of interest
}

func (rc *RunCtx) Count(name string, n int) {
	if rc.Counters == nil {
		rc.Counters = map[string]int{}
	}
	rc.Counters[name] += n
}

func (rc *RunCtx) Find(prop, oracle, key, format string, args ...interface{}) {
	rc.Findings = append(rc.Findings, Finding{Prop: prop, Oracle: oracle, Key: oracle + ":" + key, Detail: fmt.Sprintf(format, args...)})
}

// Monitors and backends created during the current run.  When a run is cut
// short (deadlock, step budget) the scenario never reaches the point where
// it gathers their findings; finishRun does it then.
var (
	liveMons  []*ConnMon
	liveFakes []*FakeSrv
	liveFS    []*simfs.FS
)

// Engine decides one property.
type Engine struct {
	ID        string
	Desc      string
	Run       func(rc *RunCtx)
	Directed  func(tier string) int // size of the directed catalogue
	Quick     int                   // random runs in the quick tier
	Thorough  int                   // random runs in the thorough tier
	QuickSecs int                   // wall-clock cap, seconds (0 = default)
	ThorSecs  int
	Rule      string
	Assume    []string
	Real      []string
	Stub      []string
	Level     string
	// Extra is run once per check in the parent for non-simulation parts
	// (e.g. exhaustive pure-function loops); it returns findings and a note.
	Extra func(tier string) ([]Finding, map[string]interface{})
	// Owns lists the properties whose findings this engine reports (its own
	// id is implied).  Findings of other properties seen during a run are
	// counted under "foreign" and not reported here.
	Owns []string
	// RaceDirectedCap limits the directed part in race builds (0 = all).
	RaceDirectedCap int
}

var engines = map[string]*Engine{}

func Register(e *Engine) { engines[e.ID] = e }

// ReplayFile is the on-disk form of one reproducible execution.
type ReplayFile struct {
	Property  string   `json:"property"`
	Seed      uint64   `json:"seed"`
	Tier      string   `json:"tier"`
	Index     int      `json:"index"`
	Plan      []uint32 `json:"plan_tape"`
	Sched     []uint32 `json:"sched_tape"`
	Minimised bool     `json:"minimised"`
	Violation Finding  `json:"violation"`
	Outcome   string   `json:"outcome"`
	Label     string   `json:"label"`
	Trace     []string `json:"trace,omitempty"`
	Note      string   `json:"note,omitempty"`
}

func tapeSeed(seed uint64, index int, stream uint64) uint64 {
	x := seed*0x9E3779B97F4A7C15 ^ uint64(index+1)*0xD1B54A32D192ED03 ^ stream*0x94D049BB133111EB
	x ^= x >> 29
	x *= 0xBF58476D1CE4E5B9
	x ^= x >> 32
	return x
}

// execRun performs one run.  If plan/sched are nil, fresh generating tapes are
// derived from (seed, index).
func execRun(e *Engine, tier string, seed uint64, index int, plan, sched []uint32, replay bool, trace bool) *RunCtx {
	rc := &RunCtx{Prop: e.ID, Tier: tier, Index: index, Trace: trace}
	if replay {
		rc.Plan = simrt.ReplayTape(plan)
		rc.Sched = simrt.ReplayTape(sched)
	} else {
		rc.Plan = simrt.NewTape(tapeSeed(seed, index, 1))
		rc.Sched = simrt.NewTape(tapeSeed(seed, index, 2))
	}
	liveMons, liveFakes, liveFS = nil, nil, nil
	e.Run(rc)
	liveMons, liveFakes, liveFS = nil, nil, nil
	// Findings of properties this engine does not own are dropped here and
	// counted; each property is reported by its own check.
	var keep []Finding
	for _, f := range rc.Findings {
		own := f.Prop == e.ID || os.Getenv("VERIF_ALL") != ""
		for _, o := range e.Owns {
			if o == f.Prop {
				own = true
			}
		}
		if own {
			if os.Getenv("VERIF_ALL") != "" && f.Prop != e.ID {
				f.Key = f.Prop + "!" + f.Key
			}
			f.Prop = e.ID
			keep = append(keep, f)
		} else {
			rc.Count("foreign."+f.Prop+"."+f.Oracle, 1)
		}
	}
	rc.Findings = keep
	return rc
}

// ------------------------------------------------------------ known findings

type knownEntry struct {
	Prop string
	Key  string
	Text string
}

func loadKnown(path string) []knownEntry {
	var out []knownEntry
	b, err := os.ReadFile(path)
	if err != nil {
		// the list of known findings is part of the check: without it a
		// known finding would be reported as a new violation
		fmt.Fprintf(os.Stderr, "cannot read %s: %v\n", path, err)
		os.Exit(2)
	}
	for _, l := range strings.Split(string(b), "\n") {
		l = strings.TrimSpace(l)
		if !strings.HasPrefix(l, "known:") {
			continue
		}
		l = strings.TrimSpace(strings.TrimPrefix(l, "known:"))
		// known: property=C05 key=<key> <text>
		var k knownEntry
		parts := strings.SplitN(l, " ", 3)
		if len(parts) < 2 {
			continue
		}
		k.Prop = strings.TrimPrefix(parts[0], "property=")
		k.Key = strings.TrimPrefix(parts[1], "key=")
		if len(parts) == 3 {
			k.Text = parts[2]
		}
		out = append(out, k)
	}
	return out
}

func isKnown(known []knownEntry, f Finding) *knownEntry {
	for i := range known {
		if known[i].Prop == f.Prop && known[i].Key == f.Key {
			return &known[i]
		}
	}
	return nil
}

// ------------------------------------------------------------------ worker

type workerMsg struct {
	Kind    string     `json:"k"` // "S" start, "E" end, "F" finding, "A" aggregate
	Index   int        `json:"i,omitempty"`
	Finding *Finding   `json:"f,omitempty"`
	Plan    []uint32   `json:"p,omitempty"`
	Sched   []uint32   `json:"s,omitempty"`
	Outcome string     `json:"o,omitempty"`
	Label   string     `json:"l,omitempty"`
	Agg     *aggregate `json:"a,omitempty"`
	Known   []Finding  `json:"kn,omitempty"`
	// Next (with "A"): the worker stopped early to give its memory back; the
	// driver starts a fresh process at this index.
	Next int `json:"n,omitempty"`
}

type aggregate struct {
	Runs         int                 `json:"runs"`
	Steps        int64               `json:"steps"`
	Choices      int64               `json:"choices"`
	Tasks        int64               `json:"tasks"`
	Trivial      int                 `json:"trivial"`
	Outcomes     map[string]int      `json:"outcomes"`
	Counters     map[string]int      `json:"counters"`
	Probes       map[string]int      `json:"probes"`
	Faults       map[string]int      `json:"faults"`
	Labels       map[string]int      `json:"labels"`
	Fingerprints map[uint64]struct{} `json:"-"`
	NFinger      int                 `json:"fingerprints"`
	PairSites    map[uint64]struct{} `json:"-"`
	NPairs       int                 `json:"pair_sites"`
	Samples      []interface{}       `json:"samples"`
	FPList       []uint64            `json:"fpl,omitempty"`
	PairList     []uint64            `json:"prl,omitempty"`
	KnownHits    map[string]int      `json:"known_hits"`
}

func newAgg() *aggregate {
	return &aggregate{Outcomes: map[string]int{}, Counters: map[string]int{}, Probes: map[string]int{}, Faults: map[string]int{},
		Labels: map[string]int{}, Fingerprints: map[uint64]struct{}{}, PairSites: map[uint64]struct{}{}, KnownHits: map[string]int{}}
}

func (a *aggregate) add(rc *RunCtx) {
	a.Runs++
	if rc.Trivial {
		a.Trivial++
	}
	if rc.Res != nil {
		a.Steps += int64(rc.Res.Steps)
		a.Choices += int64(rc.Res.Choices)
		a.Tasks += int64(rc.Res.Tasks)
		a.Outcomes[rc.Res.Outcome]++
		for k, v := range rc.Res.Probes {
			a.Probes[k] += v
		}
		for k, v := range rc.Res.Faults {
			a.Faults[k] += v
		}
		if !rc.Trivial && len(a.Fingerprints) < 2000000 {
			a.Fingerprints[rc.Res.Fingerprint^strhash64(rc.Label)] = struct{}{}
		}
		for k := range rc.Res.PairSites {
			if len(a.PairSites) < 200000 {
				a.PairSites[k] = struct{}{}
			}
		}
	}
	for k, v := range rc.Counters {
		a.Counters[k] += v
	}
	if rc.Label != "" {
		a.Labels[rc.Label]++
	}
	if rc.Sample != nil && len(a.Samples) < 3 && !rc.Trivial {
		a.Samples = append(a.Samples, rc.Sample)
	}
}

func strhash64(s string) uint64 {
	h := uint64(14695981039346656037)
	for i := 0; i < len(s); i++ {
		h = (h ^ uint64(s[i])) * 1099511628211
	}
	return h
}

func (a *aggregate) merge(b *aggregate) {
	a.Runs += b.Runs
	a.Steps += b.Steps
	a.Choices += b.Choices
	a.Tasks += b.Tasks
	a.Trivial += b.Trivial
	for k, v := range b.Outcomes {
		a.Outcomes[k] += v
	}
	for k, v := range b.Counters {
		a.Counters[k] += v
	}
	for k, v := range b.Probes {
		a.Probes[k] += v
	}
	for k, v := range b.Faults {
		a.Faults[k] += v
	}
	for k, v := range b.Labels {
		a.Labels[k] += v
	}
	for k, v := range b.KnownHits {
		a.KnownHits[k] += v
	}
	for _, f := range b.FPList {
		a.Fingerprints[f] = struct{}{}
	}
	for _, f := range b.PairList {
		a.PairSites[f] = struct{}{}
	}
	for _, s := range b.Samples {
		if len(a.Samples) < 4 {
			a.Samples = append(a.Samples, s)
		}
	}
}

func workerMain(e *Engine, tier string, seed uint64, from, to, stride, offset int, deadline time.Time, knownPath string) {
	out := bufio.NewWriter(os.Stdout)
	enc := json.NewEncoder(out)
	known := loadKnown(knownPath)
	agg := newAgg()
	seenKeys := map[string]bool{}
	next := 0
	flush := func() {
		agg.FPList = agg.FPList[:0]
		for k := range agg.Fingerprints {
			agg.FPList = append(agg.FPList, k)
		}
		agg.PairList = agg.PairList[:0]
		for k := range agg.PairSites {
			agg.PairList = append(agg.PairList, k)
		}
		enc.Encode(workerMsg{Kind: "A", Agg: agg, Next: next})
		out.Flush()
	}
	// Tasks still parked when a run ends (a server goroutine waiting for the
	// next frame, everything left over after a deadlock) stay parked for good,
	// together with what their stacks reach.  Rather than tearing them down -
	// which would run p9's deferred code outside any schedule - the worker
	// hands over to a fresh process once it has grown.
	memLimit := uint64(1536 << 20)
	if v, err := strconv.ParseUint(os.Getenv("VERIF_WORKER_MEM_MB"), 10, 64); err == nil && v > 0 {
		memLimit = v << 20
	}
	nruns := 0
	for i := from + offset; i < to; i += stride {
		if time.Now().After(deadline) {
			break
		}
		nruns++
		if nruns%32 == 0 {
			var ms runtime.MemStats
			runtime.ReadMemStats(&ms)
			if ms.Sys > memLimit {
				next = i
				break
			}
		}
		enc.Encode(workerMsg{Kind: "S", Index: i})
		out.Flush()
		if simrt.RaceBuild {
			fmt.Fprintf(os.Stderr, "@@RUN %d\n", i)
		}
		rc := execRun(e, tier, seed, i, nil, nil, false, false)
		agg.add(rc)
		for k := range rc.Findings {
			f := rc.Findings[k]
			if kn := isKnown(known, f); kn != nil {
				agg.KnownHits[f.Prop+" "+f.Key]++
				continue
			}
			if seenKeys[f.Key] || len(seenKeys) >= 12 {
				agg.Counters["violating_runs_not_reported_again"]++
				continue
			}
			seenKeys[f.Key] = true
			enc.Encode(workerMsg{Kind: "F", Index: i, Finding: &f, Plan: rc.Plan.Out, Sched: rc.Sched.Out, Outcome: outcomeOf(rc), Label: rc.Label})
			out.Flush()
		}
		enc.Encode(workerMsg{Kind: "E", Index: i})
	}
	flush()
}

func outcomeOf(rc *RunCtx) string {
	if rc.Res == nil {
		return ""
	}
	return rc.Res.Outcome
}

// -------------------------------------------------------------- shrinking

// sameViolation re-executes with the given tapes and reports whether the same
// violation class shows up.
func sameViolation(e *Engine, tier string, seed uint64, index int, plan, sched []uint32, key string) (*RunCtx, bool) {
	rc := execRun(e, tier, seed, index, plan, sched, true, false)
	for _, f := range rc.Findings {
		if f.Key == key {
			return rc, true
		}
	}
	return rc, false
}

func shrinkTape(t []uint32, test func([]uint32) bool, budget *int) []uint32 {
	cur := append([]uint32{}, t...)
	// drop trailing zeros (implicit)
	trim := func(x []uint32) []uint32 {
		for len(x) > 0 && x[len(x)-1] == 0 {
			x = x[:len(x)-1]
		}
		return x
	}
	cur = trim(cur)
	// 1. truncate
	for n := len(cur) / 2; n >= 1 && *budget > 0; n /= 2 {
		for len(cur) > n && *budget > 0 {
			cand := trim(append([]uint32{}, cur[:len(cur)-n]...))
			*budget--
			if test(cand) {
				cur = cand
			} else {
				break
			}
		}
	}
	// 2. delete blocks, 3. zero blocks
	for size := len(cur) / 2; size >= 1 && *budget > 0; size /= 2 {
		for start := 0; start+size <= len(cur) && *budget > 0; {
			cand := append(append([]uint32{}, cur[:start]...), cur[start+size:]...)
			*budget--
			if test(trim(cand)) {
				cur = trim(cand)
				continue
			}
			allZero := true
			for _, v := range cur[start : start+size] {
				if v != 0 {
					allZero = false
				}
			}
			if !allZero {
				cand = append([]uint32{}, cur...)
				for k := start; k < start+size; k++ {
					cand[k] = 0
				}
				*budget--
				if test(trim(cand)) {
					cur = trim(cand)
				}
			}
			start += size
		}
	}
	// 4. lower single values
	for i := 0; i < len(cur) && *budget > 0; i++ {
		for cur[i] > 0 && *budget > 0 {
			cand := append([]uint32{}, cur...)
			cand[i] = cur[i] / 2
			*budget--
			if test(cand) {
				cur = cand
			} else {
				cand[i] = cur[i] - 1
				*budget--
				if cur[i] > 1 && test(cand) {
					cur = cand
				} else {
					break
				}
			}
		}
	}
	return trim(cur)
}

func shrink(e *Engine, rf *ReplayFile) {
	budget := 3000
	key := rf.Violation.Key
	testPlan := func(p []uint32) bool {
		_, ok := sameViolation(e, rf.Tier, rf.Seed, rf.Index, p, rf.Sched, key)
		return ok
	}
	testSched := func(s []uint32) bool {
		_, ok := sameViolation(e, rf.Tier, rf.Seed, rf.Index, rf.Plan, s, key)
		return ok
	}
	for round := 0; round < 3 && budget > 0; round++ {
		before := len(rf.Plan) + len(rf.Sched)
		rf.Sched = shrinkTape(rf.Sched, testSched, &budget)
		rf.Plan = shrinkTape(rf.Plan, testPlan, &budget)
		if len(rf.Plan)+len(rf.Sched) == before {
			break
		}
	}
	rf.Minimised = true
}

// ------------------------------------------------------------------ parent

type evidence struct {
	PropertyID  string                 `json:"property_id"`
	Tier        string                 `json:"tier"`
	Seed        uint64                 `json:"seed"`
	Level       string                 `json:"level"`
	Coverage    map[string]interface{} `json:"coverage"`
	Assumptions []string               `json:"assumptions"`
	WallS       float64                `json:"wall_s"`
	Violations  int                    `json:"violations"`
}

func verifDir() string {
	if d := os.Getenv("VERIF_DIR"); d != "" {
		return d
	}
	return "/verif"
}

// outDir is where evidence and replay files go: /verif, unless VERIF_OUT
// redirects them (used when the checks are run against a seeded change, so
// that the committed evidence keeps describing /repo itself).
func outDir() string {
	if d := os.Getenv("VERIF_OUT"); d != "" {
		os.MkdirAll(filepath.Join(d, "evidence"), 0o755)
		os.MkdirAll(filepath.Join(d, "replays"), 0o755)
		return d
	}
	return verifDir()
}

// Main is the entry point of the p9sim binary.
func Main() {
	var (
		prop     = flag.String("prop", "", "property id")
		tier     = flag.String("tier", "quick", "quick|thorough")
		seed     = flag.Uint64("seed", 1, "VERIF_SEED")
		worker   = flag.Bool("worker", false, "internal: worker mode")
		from     = flag.Int("from", 0, "")
		to       = flag.Int("to", 0, "")
		stride   = flag.Int("stride", 1, "")
		offset   = flag.Int("offset", 0, "")
		secs     = flag.Int("secs", 0, "wall-clock cap for the run loop")
		replay   = flag.String("replay", "", "replay file")
		doShrink = flag.String("shrink", "", "internal: shrink replay file in place")
		one      = flag.Int("one", -1, "run a single index with trace and print it")
		workers  = flag.Int("workers", 0, "worker processes (default: NumCPU)")
		runs     = flag.Int("runs", -1, "override number of random runs")
		dethash  = flag.Bool("dethash", false, "print trace hashes of runs [from,to) (determinism self-test)")
		list     = flag.Bool("list", false, "list engines")
	)
	flag.Parse()
	if *list {
		var ids []string
		for id := range engines {
			ids = append(ids, id)
		}
		sort.Strings(ids)
		for _, id := range ids {
			fmt.Printf("%s %s\n", id, engines[id].Desc)
		}
		return
	}
	knownPath := filepath.Join(verifDir(), "known-findings.txt")

	if *replay != "" || *doShrink != "" {
		path := *replay
		if path == "" {
			path = *doShrink
		}
		b, err := os.ReadFile(path)
		if err != nil {
			fmt.Fprintln(os.Stderr, err)
			os.Exit(2)
		}
		var rf ReplayFile
		if err := json.Unmarshal(b, &rf); err != nil {
			fmt.Fprintln(os.Stderr, err)
			os.Exit(2)
		}
		e := engines[rf.Property]
		if e == nil {
			fmt.Fprintf(os.Stderr, "unknown property %q\n", rf.Property)
			os.Exit(2)
		}
		if *doShrink != "" {
			shrink(e, &rf)
			rc := execRun(e, rf.Tier, rf.Seed, rf.Index, rf.Plan, rf.Sched, true, true)
			if rc.Res != nil {
				rf.Trace = rc.Res.Trace
				rf.Outcome = rc.Res.Outcome
			}
			for _, f := range rc.Findings {
				if f.Key == rf.Violation.Key {
					rf.Violation = f
				}
			}
			writeJSON(path, &rf)
			return
		}
		rc := execRun(e, rf.Tier, rf.Seed, rf.Index, rf.Plan, rf.Sched, true, true)
		for _, l := range rc.Res.Trace {
			fmt.Println(l)
		}
		fmt.Printf("outcome=%s steps=%d label=%s\n", rc.Res.Outcome, rc.Res.Steps, rc.Label)
		hit := false
		for _, f := range rc.Findings {
			fmt.Printf("FINDING %s key=%s\n", f, f.Key)
			if f.Key == rf.Violation.Key {
				hit = true
			}
		}
		if hit {
			fmt.Printf("VIOLATION property=%s replay=%s\n", rf.Property, path)
			os.Exit(1)
		}
		fmt.Println("replay did not reproduce the recorded violation")
		os.Exit(0)
	}

	e := engines[*prop]
	if e == nil {
		fmt.Fprintf(os.Stderr, "unknown property %q\n", *prop)
		os.Exit(2)
	}
	if *one >= 0 {
		rc := execRun(e, *tier, *seed, *one, nil, nil, false, true)
		for _, l := range rc.Res.Trace {
			fmt.Println(l)
		}
		fmt.Printf("outcome=%s steps=%d choices=%d tasks=%d label=%s blocked=%v\n", rc.Res.Outcome, rc.Res.Steps, rc.Res.Choices, rc.Res.Tasks, rc.Label, rc.Res.Blocked)
		for _, p := range rc.Res.Panics {
			fmt.Printf("PANIC %s: %s\n%s\n", p.Task, p.Value, p.Stack)
		}
		for _, f := range rc.Findings {
			fmt.Printf("FINDING %s key=%s\n", f, f.Key)
		}
		cs, _ := json.Marshal(rc.Counters)
		fmt.Printf("counters=%s\n", cs)
		if rc.Sample != nil {
			sj, _ := json.Marshal(rc.Sample)
			fmt.Printf("sample=%s\n", sj)
		}
		return
	}
	if *dethash {
		for i := *from; i < *to; i++ {
			rc := execRun(e, *tier, *seed, i, nil, nil, false, true)
			fs := ""
			for _, f := range rc.Findings {
				fs += f.Key + ";"
			}
			fmt.Printf("%d %016x %016x %s %d %s\n", i, rc.Res.TraceHash, rc.Res.Fingerprint, rc.Res.Outcome, rc.Res.Steps, fs)
		}
		return
	}
	if *worker {
		dl := time.Now().Add(time.Duration(*secs) * time.Second)
		workerMain(e, *tier, *seed, *from, *to, *stride, *offset, dl, knownPath)
		return
	}
	os.Exit(parentMain(e, *tier, *seed, *workers, *runs, *secs, knownPath))
}

func writeJSON(path string, v interface{}) {
	b, _ := json.MarshalIndent(v, "", " ")
	os.MkdirAll(filepath.Dir(path), 0o755)
	if err := os.WriteFile(path, append(b, '\n'), 0o644); err != nil {
		fmt.Fprintln(os.Stderr, err)
		os.Exit(2)
	}
}

type found struct {
	msg     workerMsg
	crashed bool
	stderr  string
}

func parentMain(e *Engine, tier string, seed uint64, workers, runsOverride, secsOverride int, knownPath string) int {
	start := time.Now()
	if workers <= 0 {
		workers = runtime.NumCPU()
	}
	ndir := 0
	if e.Directed != nil {
		ndir = e.Directed(tier)
	}
	nrand := e.Quick
	secs := e.QuickSecs
	if tier == "thorough" {
		nrand = e.Thorough
		secs = e.ThorSecs
	}
	if secs == 0 {
		secs = 150
		if tier == "thorough" {
			secs = 1500
		}
	}
	if simrt.RaceBuild {
		// the race batch is a supplement to the plain run: fewer runs
		nrand /= 4
		if secs > 60 && tier != "thorough" {
			secs = 60
		}
		if tier == "thorough" {
			secs /= 3
		}
		if e.RaceDirectedCap > 0 && ndir > e.RaceDirectedCap {
			ndir = e.RaceDirectedCap
		}
	}
	if runsOverride >= 0 {
		nrand = runsOverride
	}
	if secsOverride > 0 {
		secs = secsOverride
	}
	total := ndir + nrand
	self, _ := os.Executable()
	known := loadKnown(knownPath)

	var mu sync.Mutex
	agg := newAgg()
	var finds []found
	var races []raceReport
	var wg sync.WaitGroup
	if workers > total {
		workers = total
	}
	if workers < 1 {
		workers = 1
	}
	for w := 0; w < workers; w++ {
		wg.Add(1)
		go func(w int) {
			defer wg.Done()
			for from := w; from < total; {
				resume := 0
				left := secs - int(time.Since(start).Seconds())
				if left < 1 {
					return
				}
				cmd := exec.Command(self, "-worker", "-prop", e.ID, "-tier", tier, "-seed", fmt.Sprint(seed),
					"-from", fmt.Sprint(from), "-to", fmt.Sprint(total), "-stride", fmt.Sprint(workers), "-offset", "0", "-secs", fmt.Sprint(left))
				cmd.Env = append(os.Environ(), "GORACE=halt_on_error=0 exitcode=0")
				stdout, _ := cmd.StdoutPipe()
				var errb strings.Builder
				lim := 1 << 16
				if simrt.RaceBuild {
					lim = 64 << 20
				}
				cmd.Stderr = &limitedWriter{w: &errb, n: lim}
				if err := cmd.Start(); err != nil {
					mu.Lock()
					finds = append(finds, found{crashed: true, stderr: "start: " + err.Error(), msg: workerMsg{Index: -1}})
					mu.Unlock()
					return
				}
				// watchdog
				timer := time.AfterFunc(time.Duration(left+120)*time.Second, func() { cmd.Process.Kill() })
				dec := json.NewDecoder(bufio.NewReaderSize(stdout, 1<<20))
				cur := -1
				gotAgg := false
				for {
					var m workerMsg
					if err := dec.Decode(&m); err != nil {
						break
					}
					switch m.Kind {
					case "S":
						cur = m.Index
					case "E":
						cur = -1
					case "F":
						mu.Lock()
						finds = append(finds, found{msg: m})
						mu.Unlock()
						cur = -1
					case "A":
						gotAgg = true
						resume = m.Next
						mu.Lock()
						agg.merge(m.Agg)
						mu.Unlock()
					}
				}
				err := cmd.Wait()
				timer.Stop()
				if simrt.RaceBuild {
					for _, rr := range parseRaceReports(errb.String()) {
						mu.Lock()
						races = append(races, rr)
						mu.Unlock()
					}
				}
				if err != nil || !gotAgg {
					mu.Lock()
					finds = append(finds, found{crashed: true, stderr: errb.String(), msg: workerMsg{Index: cur}})
					mu.Unlock()
					return
				}
				if resume <= from {
					return
				}
				from = resume
				mu.Lock()
				agg.Counters["worker_processes_recycled"]++
				mu.Unlock()
			}
		}(w)
	}
	wg.Wait()

	var extraFindings []Finding
	var extraNote map[string]interface{}
	if e.Extra != nil {
		extraFindings, extraNote = e.Extra(tier)
	}

	wall := time.Since(start).Seconds()
	violations := 0
	exit := 0
	replayDir := filepath.Join(outDir(), "replays")

	// known findings seen
	var knownKeys []string
	for k := range agg.KnownHits {
		knownKeys = append(knownKeys, k)
	}
	sort.Strings(knownKeys)
	for _, k := range knownKeys {
		parts := strings.SplitN(k, " ", 2)
		text := ""
		for _, kn := range known {
			if kn.Prop == parts[0] && kn.Key == parts[1] {
				text = kn.Text
			}
		}
		fmt.Printf("KNOWN-FINDING: property=%s key=%s %s (seen in %d runs)\n", parts[0], parts[1], text, agg.KnownHits[k])
	}

	sort.Slice(finds, func(i, j int) bool { return finds[i].msg.Index < finds[j].msg.Index })
	reported := map[string]bool{}
	var pending []found
	for _, f := range finds {
		if f.crashed {
			// a worker died: harness trouble unless the re-run shows a Go
			// runtime abort / race report attributable to the run
			idx := f.msg.Index
			kind := classifyCrash(f.stderr)
			if idx < 0 || kind == "" {
				fmt.Fprintf(os.Stderr, "worker failed (index %d) without an attributable crash:\n%s\n", idx, tail(f.stderr, 4000))
				return 2
			}
			key := "process-crash:" + kind
			fnd := Finding{Prop: e.ID, Oracle: "process-crash", Key: key, Detail: kind + ": " + firstLines(f.stderr, 12)}
			if isKnown(known, fnd) != nil {
				fmt.Printf("KNOWN-FINDING: property=%s key=%s (worker crash at index %d)\n", e.ID, key, idx)
				continue
			}
			if reported[key] {
				continue
			}
			reported[key] = true
			rf := &ReplayFile{Property: e.ID, Seed: seed, Tier: tier, Index: idx, Violation: fnd, Note: "worker process aborted; replay by re-running the index with generated tapes", Outcome: "crash"}
			path := filepath.Join(replayDir, fmt.Sprintf("%s-seed%d-idx%d-crash.json", e.ID, seed, idx))
			writeJSON(path, rf)
			// confirm in a fresh process
			confirmed := false
			for try := 0; try < 5 && !confirmed; try++ {
				cmd := exec.Command(self, "-prop", e.ID, "-tier", tier, "-seed", fmt.Sprint(seed), "-one", fmt.Sprint(idx))
				cmd.Env = append(os.Environ(), "GORACE=halt_on_error=1 exitcode=66")
				out, err := cmd.CombinedOutput()
				if err != nil && classifyCrash(string(out)) == kind {
					confirmed = true
				}
			}
			if !confirmed {
				fmt.Fprintf(os.Stderr, "worker crash at index %d (%s) did not reproduce in a fresh process:\n%s\n", idx, kind, tail(f.stderr, 4000))
				return 2
			}
			fmt.Printf("violation: %s\n", fnd)
			fmt.Printf("VIOLATION property=%s replay=%s\n", e.ID, path)
			violations++
			exit = 1
			continue
		}
		key := f.msg.Finding.Key
		if reported[key] {
			continue
		}
		reported[key] = true
		pending = append(pending, f)
	}
	// Shrink and confirm the distinct violations, several at a time.  Only the
	// first few are minimised (a badly broken tree can produce dozens of
	// distinct keys); every one is confirmed by a replay in a fresh process.
	const maxShrunk = 6
	type vout struct {
		text    string
		trouble bool
	}
	outs := make([]vout, len(pending))
	// one replay file per violation: a run may violate several oracles
	paths := make([]string, len(pending))
	perIndex := map[int]int{}
	for i, f := range pending {
		suffix := ""
		if n := perIndex[f.msg.Index]; n > 0 {
			suffix = fmt.Sprintf("-v%d", n+1)
		}
		perIndex[f.msg.Index]++
		paths[i] = filepath.Join(replayDir, fmt.Sprintf("%s-seed%d-idx%d%s.json", e.ID, seed, f.msg.Index, suffix))
	}
	sem := make(chan struct{}, workers)
	var vwg sync.WaitGroup
	for i, f := range pending {
		vwg.Add(1)
		go func(i int, f found) {
			defer vwg.Done()
			sem <- struct{}{}
			defer func() { <-sem }()
			key := f.msg.Finding.Key
			rf := &ReplayFile{Property: e.ID, Seed: seed, Tier: tier, Index: f.msg.Index, Plan: f.msg.Plan, Sched: f.msg.Sched,
				Violation: *f.msg.Finding, Outcome: f.msg.Outcome, Label: f.msg.Label}
			path := paths[i]
			writeJSON(path, rf)
			if i < maxShrunk {
				// shrink in a fresh process, then confirm the replay in another
				sh := exec.Command(self, "-shrink", path)
				sh.Stderr = os.Stderr
				shDone := make(chan error, 1)
				go func() { shDone <- sh.Run() }()
				select {
				case <-shDone:
				case <-time.After(3 * time.Minute):
					sh.Process.Kill()
					<-shDone
					writeJSON(path, rf) // keep the unshrunk file
				}
			}
			rp := exec.Command(self, "-replay", path)
			out, _ := rp.CombinedOutput()
			if !strings.Contains(string(out), "VIOLATION property="+e.ID) {
				outs[i] = vout{trouble: true, text: fmt.Sprintf("replay of %s in a fresh process did not reproduce %s — harness determinism problem\n%s\n", path, key, tail(string(out), 3000))}
				return
			}
			b, _ := os.ReadFile(path)
			var rf2 ReplayFile
			json.Unmarshal(b, &rf2)
			outs[i].text = fmt.Sprintf("violation: %s\n  index=%d label=%s plan_tape=%d sched_tape=%d choices (minimised=%v)\nVIOLATION property=%s replay=%s\n",
				rf2.Violation, rf2.Index, rf2.Label, len(rf2.Plan), len(rf2.Sched), rf2.Minimised, e.ID, path)
		}(i, f)
	}
	vwg.Wait()
	for _, o := range outs {
		if o.trouble {
			fmt.Fprint(os.Stderr, o.text)
			return 2
		}
	}
	for _, o := range outs {
		fmt.Print(o.text)
		violations++
		exit = 1
	}
	// data races reported by the Go race detector in non-harness code
	sort.Slice(races, func(i, j int) bool { return races[i].index < races[j].index })
	harnessReports := 0
	unconfirmedRaces := 0
	for _, rr := range races {
		if rr.harness {
			harnessReports++
			continue
		}
		fnd := Finding{Prop: e.ID, Oracle: "data-race", Key: "data-race:" + rr.key, Detail: rr.summary}
		if isKnown(known, fnd) != nil {
			fmt.Printf("KNOWN-FINDING: property=%s key=%s (race detector, run index %d)\n", e.ID, fnd.Key, rr.index)
			continue
		}
		if reported[fnd.Key] {
			continue
		}
		reported[fnd.Key] = true
		path := filepath.Join(replayDir, fmt.Sprintf("%s-seed%d-idx%d-race.json", e.ID, seed, rr.index))
		writeJSON(path, &ReplayFile{Property: e.ID, Seed: seed, Tier: tier, Index: rr.index, Violation: fnd, Outcome: "data-race",
			Note: "reported by the Go race detector in the -race build; replay: re-run this index with the race build (./check " + e.ID + " thorough re-runs it)", Trace: strings.Split(rr.text, "\n")})
		// confirm in a fresh process (tsan keeps four shadow cells per word and
		// evicts at random, so retry)
		confirmed := false
		for try := 0; try < 12 && !confirmed; try++ {
			cmd := exec.Command(self, "-prop", e.ID, "-tier", tier, "-seed", fmt.Sprint(seed), "-one", fmt.Sprint(rr.index))
			cmd.Env = append(os.Environ(), "GORACE=halt_on_error=0 exitcode=0")
			out, _ := cmd.CombinedOutput()
			for _, r2 := range parseRaceReports("@@RUN " + fmt.Sprint(rr.index) + "\n" + string(out)) {
				if !r2.harness && r2.key == rr.key {
					confirmed = true
				}
			}
		}
		if !confirmed {
			// (the detector keeps four shadow cells per word and evicts at
			// random: a report may need more luck than the re-runs had)
			fmt.Fprintf(os.Stderr, "race report at index %d did not reproduce in 12 fresh processes; kept at %s\n%s\n", rr.index, path, rr.text)
			unconfirmedRaces++
			continue
		}
		fmt.Printf("violation: %s\n", fnd)
		fmt.Printf("VIOLATION property=%s replay=%s\n", e.ID, path)
		violations++
		exit = 1
	}
	if unconfirmedRaces > 0 && exit == 0 {
		// a report that cannot be reproduced and nothing else to show: the
		// harness cannot stand behind a verdict either way
		return 2
	}
	for _, f := range extraFindings {
		if kn := isKnown(known, f); kn != nil {
			fmt.Printf("KNOWN-FINDING: property=%s key=%s %s\n", f.Prop, f.Key, kn.Text)
			continue
		}
		path := filepath.Join(replayDir, fmt.Sprintf("%s-extra-%x.json", e.ID, strhash64(f.Key)&0xffffff))
		writeJSON(path, &ReplayFile{Property: e.ID, Seed: seed, Tier: tier, Index: -1, Violation: f, Note: "non-simulation exhaustive part; deterministic, re-run the check"})
		fmt.Printf("violation: %s\n", f)
		fmt.Printf("VIOLATION property=%s replay=%s\n", e.ID, path)
		violations++
		exit = 1
	}

	// evidence
	distinct := len(agg.Fingerprints)
	cov := map[string]interface{}{
		"evaluations":                          agg.Runs,
		"distinct_nontrivial":                  distinct,
		"rule":                                 e.Rule,
		"samples":                              agg.Samples,
		"exhaustive":                           false,
		"runs":                                 agg.Runs,
		"directed_scenarios":                   ndir,
		"random_runs_planned":                  nrand,
		"runs_per_hour":                        int(float64(agg.Runs) / wall * 3600),
		"simulated_time_steps":                 agg.Steps,
		"simulated_time_note":                  "p9 has no clock or timers; simulated time is the scheduler step counter",
		"scheduling_decisions":                 agg.Choices,
		"tasks_spawned":                        agg.Tasks,
		"distinct_schedule_fingerprints":       distinct,
		"distinct_context_switch_site_pairs":   len(agg.PairSites),
		"outcomes":                             agg.Outcomes,
		"faults_fired":                         agg.Faults,
		"probes":                               agg.Probes,
		"counters":                             agg.Counters,
		"scenario_labels":                      topLabels(agg.Labels, 40),
		"trivial_runs":                         agg.Trivial,
		"components_real":                      e.Real,
		"components_stub":                      e.Stub,
		"workers":                              workers,
		"known_findings_seen":                  agg.KnownHits,
		"race_detector":                        simrt.RaceBuild,
		"race_reports_in_harness_code_ignored": harnessReports,
	}
	for k, v := range extraNote {
		cov[k] = v
	}
	if len(agg.Samples) == 0 {
		cov["samples"] = []interface{}{"(no sample recorded)"}
	}
	for k, v := range agg.Probes {
		if v == 0 {
			fmt.Fprintf(os.Stderr, "warning: probe %s stuck at zero\n", k)
		}
	}
	if e.Assume == nil {
		e.Assume = []string{}
	}
	ev := evidence{PropertyID: e.ID, Tier: tier, Seed: seed, Level: e.Level, Coverage: cov, Assumptions: e.Assume, WallS: wall, Violations: violations}
	if ev.Level == "" {
		ev.Level = "exploration"
	}
	evPath := filepath.Join(outDir(), "evidence", e.ID+".json")
	racePath := filepath.Join(outDir(), "evidence", e.ID+".race.json")
	if simrt.RaceBuild {
		evPath = racePath
	} else if b, err := os.ReadFile(racePath); err == nil {
		// embed the summary of the race-detector batch run just before
		var rev evidence
		if json.Unmarshal(b, &rev) == nil && rev.Seed == seed && rev.Tier == tier {
			ev.Coverage["race_detector_batch"] = map[string]interface{}{
				"runs": rev.Coverage["runs"], "steps": rev.Coverage["simulated_time_steps"], "wall_s": rev.WallS,
				"violations": rev.Violations, "harness_reports_ignored": rev.Coverage["race_reports_in_harness_code_ignored"],
				"distinct_schedule_fingerprints": rev.Coverage["distinct_schedule_fingerprints"],
			}
		}
	}
	writeJSON(evPath, ev)
	fmt.Printf("%s %s seed=%d: %d runs (%d directed + random), %d steps, %d distinct schedules, %.1fs, violations=%d\n",
		e.ID, tier, seed, agg.Runs, ndir, agg.Steps, distinct, wall, violations)
	if agg.Runs == 0 {
		fmt.Fprintln(os.Stderr, "no runs completed")
		return 2
	}
	return exit
}

func topLabels(m map[string]int, n int) map[string]int {
	type kv struct {
		k string
		v int
	}
	var l []kv
	for k, v := range m {
		l = append(l, kv{k, v})
	}
	sort.Slice(l, func(i, j int) bool {
		if l[i].v != l[j].v {
			return l[i].v > l[j].v
		}
		return l[i].k < l[j].k
	})
	out := map[string]int{}
	for i := 0; i < len(l) && i < n; i++ {
		out[l[i].k] = l[i].v
	}
	out["(distinct labels)"] = len(l)
	return out
}

func classifyCrash(stderr string) string {
	switch {
	case strings.Contains(stderr, "SIMRT-INTERNAL"):
		return ""
	case strings.Contains(stderr, "WARNING: DATA RACE"):
		return "data-race"
	case strings.Contains(stderr, "fatal error: concurrent map"):
		return "concurrent-map-access"
	case strings.Contains(stderr, "fatal error: sync: unlock of unlocked"):
		return "unlock-of-unlocked"
	case strings.Contains(stderr, "fatal error: sync: RUnlock of unlocked"):
		return "unlock-of-unlocked"
	case strings.Contains(stderr, "fatal error: sync: Unlock of unlocked"):
		return "unlock-of-unlocked"
	case strings.Contains(stderr, "fatal error: all goroutines are asleep"):
		return ""
	case strings.Contains(stderr, "fatal error:"):
		return "runtime-fatal"
	case strings.Contains(stderr, "panic:"):
		return "panic"
	}
	return ""
}

func tail(s string, n int) string {
	if len(s) > n {
		return s[len(s)-n:]
	}
	return s
}

func firstLines(s string, n int) string {
	l := strings.Split(s, "\n")
	if len(l) > n {
		l = l[:n]
	}
	return strings.Join(l, " | ")
}

type limitedWriter struct {
	w io.Writer
	n int
}

func (l *limitedWriter) Write(p []byte) (int, error) {
	if l.n <= 0 {
		return len(p), nil
	}
	q := p
	if len(q) > l.n {
		q = q[:l.n]
	}
	l.n -= len(q)
	l.w.Write(q)
	return len(p), nil
}

// ---------------------------------------------------------- race reports

type raceReport struct {
	index   int
	text    string
	harness bool
	key     string
	summary string
}

// parseRaceReports splits a worker's stderr into race detector reports,
// attributes each to the run announced before it, and classifies it: a report
// counts against p9 only if, for both accesses, the innermost frame outside
// the Go runtime lies outside the simulation harness (zzverif).  The harness
// shares bookkeeping between tasks on purpose and its hand-offs are hidden
// from the detector, so reports inside it are expected and meaningless.
func parseRaceReports(stderr string) []raceReport {
	var out []raceReport
	idx := -1
	lines := strings.Split(stderr, "\n")
	for i := 0; i < len(lines); i++ {
		l := lines[i]
		if strings.HasPrefix(l, "@@RUN ") {
			fmt.Sscanf(l, "@@RUN %d", &idx)
			continue
		}
		if !strings.HasPrefix(l, "WARNING: DATA RACE") {
			continue
		}
		j := i + 1
		for j < len(lines) && !strings.HasPrefix(lines[j], "==================") {
			j++
		}
		block := lines[i:j]
		i = j
		rr := raceReport{index: idx, text: strings.Join(block, "\n")}
		// the two access stacks are the first two sections
		var tops []string
		for k := 0; k < len(block) && len(tops) < 2; k++ {
			b := block[k]
			if strings.HasPrefix(b, "Read at") || strings.HasPrefix(b, "Write at") || strings.HasPrefix(b, "Previous read") || strings.HasPrefix(b, "Previous write") ||
				strings.HasPrefix(b, "Atomic") || strings.HasPrefix(b, "Previous atomic") {
				top := ""
				for m := k + 1; m < len(block) && strings.TrimSpace(block[m]) != ""; m += 2 {
					fn := strings.TrimSpace(block[m])
					if strings.HasPrefix(fn, "runtime.") || strings.HasPrefix(fn, "sync.") || strings.HasPrefix(fn, "sync/atomic.") || strings.HasPrefix(fn, "internal/") || strings.HasPrefix(fn, "reflect.") || strings.HasPrefix(fn, "sort.") || strings.HasPrefix(fn, "strings.") || strings.HasPrefix(fn, "fmt.") {
						continue
					}
					top = fn
					break
				}
				tops = append(tops, top)
			}
		}
		rr.harness = len(tops) < 2
		for _, t := range tops {
			if t == "" || strings.Contains(t, "/zzverif/") {
				rr.harness = true
			}
		}
		sort.Strings(tops)
		rr.key = strings.Join(tops, " <-> ")
		rr.summary = "race detector: unsynchronised accesses in " + rr.key
		out = append(out, rr)
	}
	return out
}
