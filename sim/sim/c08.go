package sim

import (
	"fmt"
	"strings"

	rc "github.com/hugelgupf/p9/zzverif/refcodec"
	"github.com/hugelgupf/p9/zzverif/simfs"
	"github.com/hugelgupf/p9/zzverif/simrt"
)

// C08 — path coherence under rename/unlink and fencing of deleted paths.
//
// Lock-step peers on one or two connections hold many fids on the same and on
// nested paths of a small tree and rename / unlink / recreate entries.  After
// every request:
//   - every live handle of the path-based backend must resolve to the object it
//     was bound to (a missed Renamed shows here),
//   - Tgetattr through every unfenced fid must report the inode the fid was
//     bound to; fenced fids must behave as the session model says (walk to a
//     child ENOENT, path-dependent operations EINVAL without a backend call),
//   - a successful Trename / Trenameat must have put the object where the
//     request said, i.e. the backend was asked with the entry's current name.

var c08Names = []string{"a", "b", "c"}

type c08conn struct {
	c     *SrvConn
	model *sessModel
	ino   map[uint32]uint64 // fid -> inode it was bound to
	inoH  map[uint32]*simfs.Handle
}

func c08Tree(fs *simfs.FS) {
	fs.MkPath("/a/")
	fs.MkPath("/a/a/")
	fs.MkPath("/a/a/a")
	fs.MkPath("/a/b")
	fs.MkPath("/b/")
	fs.MkPath("/b/a")
	fs.MkPath("/c")
	fs.MkPath("/b/z")
}

// Bounded-exhaustive part: from a fixed state in which fids 1..7 are bound to
// /a, /a/a, /a/a/a, /a/b, /b, /b/a, /c, every sequence of c08Depth requests
// over this alphabet of renames, unlinks, removes, creations and walks.
var c08Alphabet = func() []func() rc.Message {
	var out []func() rc.Message
	add := func(f func() rc.Message) { out = append(out, f) }
	for _, f := range []uint32{2, 3, 4, 6} {
		for _, d := range []uint32{0, 1, 5} {
			for _, n := range []string{"a", "b"} {
				f, d, n := f, d, n
				add(func() rc.Message { return &rc.Trename{Fid: f, Dfid: d, Name: n} })
			}
		}
	}
	for _, od := range []uint32{0, 1, 5} {
		for _, on := range []string{"a", "b"} {
			for _, nd := range []uint32{0, 1, 5} {
				for _, nn := range []string{"a", "c"} {
					od, on, nd, nn := od, on, nd, nn
					add(func() rc.Message { return &rc.Trenameat{OldDirFid: od, OldName: on, NewDirFid: nd, NewName: nn} })
				}
			}
		}
	}
	for _, d := range []uint32{0, 1, 2, 5} {
		for _, n := range []string{"a", "b"} {
			d, n := d, n
			add(func() rc.Message { return &rc.Tunlinkat{DirFid: d, Name: n} })
		}
	}
	for _, f := range []uint32{2, 3, 4, 6, 7} {
		f := f
		add(func() rc.Message { return &rc.Tremove{Fid: f} })
	}
	for _, d := range []uint32{0, 1, 5} {
		for _, n := range []string{"a", "c"} {
			d, n := d, n
			add(func() rc.Message { return &rc.Tmkdir{Dfid: d, Name: n, Mode: 0o755} })
		}
	}
	for _, f := range []uint32{0, 1, 2, 5} {
		f := f
		add(func() rc.Message { return &rc.Twalk{Fid: f, NewFid: 8, Names: []string{"a"}} })
	}
	// the name "z" of /b was unlinked (fid 9 still holds the old file) and
	// re-created during the set-up: renames of the new "z"
	add(func() rc.Message { return &rc.Trenameat{OldDirFid: 5, OldName: "z", NewDirFid: 0, NewName: "c"} })
	add(func() rc.Message { return &rc.Trenameat{OldDirFid: 5, OldName: "z", NewDirFid: 5, NewName: "y"} })
	add(func() rc.Message { return &rc.Twalk{Fid: 3, NewFid: 8} })
	add(func() rc.Message { return &rc.Tlcreate{Fid: 8, Name: "b", Flags: 2, Mode: 0o644} })
	return out
}()

func c08Depth(tier string) int {
	if tier == "thorough" {
		return 3
	}
	return 2
}

func c08SweepSize(tier string) int {
	n := 1
	for i := 0; i < c08Depth(tier); i++ {
		n *= len(c08Alphabet)
	}
	return n
}

var c08Prebound = []string{"", "a", "a/a", "a/a/a", "a/b", "b", "b/a", "c"}

func runC08(rcx *RunCtx) {
	if k := rcx.Index - c08SweepSize(rcx.Tier); k >= 0 && k < createRaceCount() {
		runCreateRace(rcx, k)
		return
	} else if k -= createRaceCount(); k >= 0 && k < walkRaceCount() {
		runWalkRace(rcx, k)
		return
	} else if k -= walkRaceCount(); k >= 0 && k < deepFenceCount() {
		runDeepFence(rcx, k)
		return
	} else if k -= deepFenceCount(); k >= 0 && k < renameRaceCount() {
		runRenameRace(rcx, k)
		return
	}
	if !(rcx.Index < c08SweepSize(rcx.Tier)+createRaceCount()+walkRaceCount()+deepFenceCount()+renameRaceCount()) && rcx.Plan.Choose(5) == 0 {
		// a pair of the C06/C07 catalogue under a tape-chosen schedule; its
		// aftermath is checked for path coherence and usable fids
		runPair(rcx, pairCatalogue[rcx.Plan.Choose(len(pairCatalogue))])
		return
	}
	cfg := simCfg(rcx)
	p := rcx.Plan
	nconn := 1 + p.Choose(2)
	nops := 8 + p.Choose(60)
	wga := p.Choose(2) == 1
	ver := 7 - p.Choose(8)
	rcx.Label = fmt.Sprintf("conns=%d", nconn)
	recursive := p.Choose(3) == 0 // the backend lets non-empty directories be removed or overwritten
	var sweepOps []rc.Message
	sweep := rcx.Index < c08SweepSize(rcx.Tier)
	if sweep {
		k := rcx.Index
		for d := 0; d < c08Depth(rcx.Tier); d++ {
			sweepOps = append(sweepOps, c08Alphabet[k%len(c08Alphabet)]())
			k /= len(c08Alphabet)
		}
		nconn, nops = 1, len(sweepOps)
		rcx.Label = "sweep"
	}
	var trace []string
	renames, unlinks, fencedProbes := 0, 0, 0
	rcx.Res = simrt.Run(cfg, rcx.Sched, func() {
		fs := simfs.New()
		fs.WalkGetAttrENOSYS = wga
		fs.RecursiveRemove = recursive
		c08Tree(fs)
		w := NewWorld(nil, fs)
		var conns []*c08conn
		find := func(oracle, key, format string, args ...interface{}) {
			rcx.Find("C08", oracle, key, format, args...)
		}
		for i := 0; i < nconn; i++ {
			c := w.Connect()
			cc := &c08conn{c: c, model: newSessModel(), ino: map[uint32]uint64{}, inoH: map[uint32]*simfs.Handle{}}
			conns = append(conns, cc)
		}
		step := func(cc *c08conn, m rc.Message) rc.Message {
			mark := len(fs.Calls)
			tag := cc.c.Tag()
			if _, ok := m.(*rc.Tversion); ok {
				tag = rc.NoTag
			}
			v := cc.model.judge(m)
			req := cc.c.Send(tag, m)
			simrt.WaitQuiescent()
			if req == nil || req.Reply == nil {
				find("no-reply", rc.TypeName(m.MsgType()), "%s was not answered", rc.String(m))
				return nil
			}
			if len(trace) < 40 {
				trace = append(trace, fmt.Sprintf("c%d %s -> %s", cc.c.ID, rc.String(m), rc.String(req.Reply.Msg)))
			}
			cc.model.checkStep(find, v, m, req.Reply.Msg, fs.Calls[mark:])
			// remember which object each fid denotes
			for fid, f := range cc.model.fids {
				if f.h != nil && f.h.Bound() != nil && cc.inoH[fid] != f.h {
					cc.ino[fid] = f.h.Bound().Ino
					cc.inoH[fid] = f.h
				}
			}
			for fid := range cc.ino {
				if _, ok := cc.model.fids[fid]; !ok {
					delete(cc.ino, fid)
					delete(cc.inoH, fid)
				}
			}
			return req.Reply.Msg
		}
		for _, cc := range conns {
			step(cc, &rc.Tversion{Msize: 8192, Version: versionStr(ver)})
			step(cc, &rc.Tattach{Fid: 0, Afid: rc.NoFid, Uname: "u", Aname: "", NUname: rc.NoUID})
		}
		if sweep {
			for fid := 1; fid < len(c08Prebound); fid++ {
				var ns []string
				for _, n := range strings.Split(c08Prebound[fid], "/") {
					ns = append(ns, n)
				}
				if rep := step(conns[0], &rc.Twalk{Fid: 0, NewFid: uint32(fid), Names: ns}); rep == nil || Errno(rep) != 0 {
					find("setup", "setup", "could not bind fid %d to /%s", fid, c08Prebound[fid])
					return
				}
			}
		}
		if sweep {
			// a fenced fid whose name exists again
			for _, m := range []rc.Message{
				&rc.Twalk{Fid: 0, NewFid: 9, Names: []string{"b", "z"}},
				&rc.Tunlinkat{DirFid: 5, Name: "z"},
				&rc.Tmkdir{Dfid: 5, Name: "z", Mode: 0o755},
			} {
				if rep := step(conns[0], m); rep == nil || Errno(rep) != 0 {
					find("setup", "setup", "set-up step %s failed", rc.String(m))
					return
				}
			}
		}
		ch := simrt.Choose
		name := func() string { return c08Names[ch(len(c08Names))] }
		for op := 0; op < nops && len(rcx.Findings) == 0; op++ {
			cc := conns[ch(len(conns))]
			bound := cc.model.boundFids()
			pick := func() uint32 {
				if len(bound) > 0 && ch(8) != 0 {
					return bound[ch(len(bound))]
				}
				return uint32(ch(8))
			}
			var m rc.Message
			sel := -1
			if sweep {
				m = sweepOps[op]
				switch m.(type) {
				case *rc.Trename, *rc.Trenameat:
					renames++
				case *rc.Tunlinkat, *rc.Tremove:
					unlinks++
				}
			} else {
				sel = ch(14)
			}
			switch sel {
			case 0, 1, 2:
				var ns []string
				for k := 1 + ch(3); k > 0; k-- {
					ns = append(ns, name())
				}
				m = &rc.Twalk{Fid: pick(), NewFid: uint32(1 + ch(7)), Names: ns}
			case 3:
				m = &rc.Twalk{Fid: pick(), NewFid: uint32(1 + ch(7))}
			case 4:
				m = &rc.Tmkdir{Dfid: pick(), Name: name(), Mode: 0o755}
			case 5:
				m = &rc.Tlcreate{Fid: pick(), Name: name(), Flags: 2, Mode: 0o644}
			case 6, 7:
				m = &rc.Trename{Fid: pick(), Dfid: pick(), Name: name()}
				renames++
			case 8, 9:
				m = &rc.Trenameat{OldDirFid: pick(), OldName: name(), NewDirFid: pick(), NewName: name()}
				renames++
			case 10:
				m = &rc.Tunlinkat{DirFid: pick(), Name: name()}
				unlinks++
			case 11:
				m = &rc.Tremove{Fid: pick()}
				unlinks++
			case 12:
				m = &rc.Tclunk{Fid: pick()}
			case 13:
				f := pick()
				if ch(2) == 0 {
					m = &rc.Tlopen{Fid: f, Flags: 2}
				} else {
					m = &rc.Twrite{Fid: f, Offset: 0, Data: []byte(fmt.Sprintf("w%d", op))}
				}
			}
			// where does a rename say the object goes?
			var mvIno uint64
			var mvDir *simfs.Handle
			var mvName string
			switch t := m.(type) {
			case *rc.Trename:
				if f, d := cc.model.fids[t.Fid], cc.model.fids[t.Dfid]; f != nil && d != nil && f.h != nil && d.h != nil {
					mvIno, mvDir, mvName = cc.ino[t.Fid], d.h, t.Name
				}
			case *rc.Trenameat:
				if od, nd := cc.model.fids[t.OldDirFid], cc.model.fids[t.NewDirFid]; od != nil && nd != nil && od.h != nil && nd.h != nil && od.kind == simfs.Dir {
					if dir := fs.Lookup(od.h.Path()); dir != nil && !od.deleted() {
						if obj := dir.Child(t.OldName); obj != nil {
							mvIno, mvDir, mvName = obj.Ino, nd.h, t.NewName
						}
					}
				}
			}
			rep := step(cc, m)
			if rep == nil {
				break
			}
			_, failed := rep.(*rc.Rlerror)
			if !failed && mvIno != 0 {
				d := fs.Lookup(mvDir.Path())
				var got *simfs.Inode
				if d != nil {
					got = d.Child(mvName)
				}
				if got == nil || got.Ino != mvIno {
					find("rename-misdirected", rc.TypeName(m.MsgType()), "%s succeeded but inode %d is not at %s/%s afterwards (history: %v)", rc.String(m), mvIno, mvDir.Path(), mvName, trace)
				}
			}
			// coherence of every live backend handle
			for _, v := range fs.CheckCoherence() {
				find(v.Oracle, "quiescent", "after %s: %s (history: %v)", rc.String(m), v.Detail, trace)
			}
			// identity probe through every fid of every connection
			for _, pc := range conns {
				for _, fid := range pc.model.boundFids() {
					f := pc.model.fids[fid]
					if f.x != xNone || f.unknown || f.h == nil {
						continue
					}
					if f.deleted() {
						fencedProbes++
						// fenced: a walk to a child must fail with ENOENT (EINVAL from a non-directory)
						pv := pc.model.judge(&rc.Twalk{Fid: fid, NewFid: 99, Names: []string{"a"}})
						pmark := len(fs.Calls)
						preq := pc.c.Send(pc.c.Tag(), &rc.Twalk{Fid: fid, NewFid: 99, Names: []string{"a"}})
						simrt.WaitQuiescent()
						if preq.Reply != nil {
							pc.model.checkStep(find, pv, &rc.Twalk{Fid: fid, NewFid: 99, Names: []string{"a"}}, preq.Reply.Msg, fs.Calls[pmark:])
						}
						continue
					}
					want := pc.ino[fid]
					preq := pc.c.Send(pc.c.Tag(), &rc.Tgetattr{Fid: fid, Mask: rc.GetattrIno | rc.GetattrMode})
					simrt.WaitQuiescent()
					if preq.Reply == nil {
						find("no-reply", "probe", "probe Tgetattr(fid %d) not answered", fid)
						continue
					}
					ga, ok := preq.Reply.Msg.(*rc.Rgetattr)
					if !ok || ga.QID.Path != want {
						find("fid-lost-object", rc.TypeName(m.MsgType()), "after %s: fid %d on c%d was bound to inode %d but Tgetattr through it gives %s (history: %v)", rc.String(m), fid, pc.c.ID, want, rc.String(preq.Reply.Msg), trace)
					}
				}
			}
		}
		w.Shutdown()
		rcx.Findings = append(rcx.Findings, w.Findings...)
	})
	rcx.Count("renames", renames)
	rcx.Count("unlinks", unlinks)
	rcx.Count("fenced_fid_probes", fencedProbes)
	if renames+unlinks == 0 {
		rcx.Trivial = true
	}
	if len(trace) > 10 {
		trace = trace[:10]
	}
	rcx.Sample = map[string]interface{}{"connections": nconn, "ops": nops, "version": ver, "walkgetattr_enosys": wga, "backend_removes_non_empty_directories": recursive, "history_head": trace}
	finishRun(rcx)
}

func init() {
	Register(&Engine{
		ID:   "C08",
		Desc: "path coherence under rename/unlink, fencing of deleted paths (identity model + path-based backend)",
		Run:  runC08,
		Directed: func(tier string) int { return c08SweepSize(tier) + createRaceCount() + walkRaceCount() + deepFenceCount() + renameRaceCount() },
		Quick:    96000, Thorough: 4500000, QuickSecs: 60, ThorSecs: 1500,
		Rule: fmt.Sprintf("sweep: from a state with fids bound to /a, /a/a, /a/a/a, /a/b, /b, /b/a, /c and a fenced fid on an unlinked /b/z whose name exists again, ALL sequences of depth 2 (quick) / 3 (thorough) over an alphabet of %d requests (24 Trename, 38 Trenameat incl. over existing targets and of whole subtrees, 8 Tunlinkat, 5 Tremove, 6 Tmkdir re-creating names, walks, clone, create); create-race: a Tlcreate parked in the backend while a rename / replace / unlink of the very name it creates (6 kinds, same or other connection) queues behind it, released under %d tape-chosen schedules each, then the created fid is probed, cloned and moved; walk-race: a two-component Twalk parked at its second step while a rename of the first or second component or an unlink of the second queues behind it (4 kinds x same/other connection x 32 schedules); deep-fence: a backend that lets non-empty directories go, fids one, two and three levels below an entry that is unlinked or overwritten are all fenced; rename-race: a Trenameat of an entry parked in the backend while a Trename or Tremove through a fid on that entry queues behind it and must use the new name; ", len(c08Alphabet), createRaceSchedules) + "random: 1/5 a pair of the C06/C07 catalogue (A parked in its backend call, B queued or running, A released) under a tape-chosen schedule, then coherence and clone/getattr probes; 4/5 random histories of 8-68 requests (walk 1-3 components, clone, mkdir, create, rename, renameat incl. over existing targets and whole subtrees, unlinkat, remove, clunk, open/write) on 1-2 lock-step connections with up to 8 fids each on the same and nested paths of a depth-3 tree over names {a,b,c}. In a third of all runs the backend lets non-empty directories be unlinked or overwritten, so fids several levels below a removed entry exist. After EVERY request: (1) every live handle of the path-based backend resolves to the object it was bound to; (2) Tgetattr through every unfenced fid on every connection reports the bound inode; (3) fenced fids answer a child walk as the session model prescribes; (4) a successful rename put the inode where the request said; all replies also checked against the C04 session model (fencing errnos, no backend call). Non-trivial = the history contains a rename or unlink.",
		Assume: []string{"object identity = backend inode number; fenced = the backend's own record that the directory entry the handle named was removed or overwritten"},
		Real:   []string{"p9.Server", "p9 path tree / fid table / handlers", "p9 wire codec"},
		Stub:   []string{"transport (simnet pipes)", "backend tree (simfs, path-based handles)", "raw 9P peer (refcodec)"},
		Owns:   []string{"C04"},
	})
}
