package sim

import (
	"errors"
	"fmt"
	"os"
	"syscall"

	"github.com/hugelgupf/p9/linux"
)

// Errors a backend may return, with the errno the client must see.
var injectedErrs = []error{
	linux.EIO, linux.ENOENT, linux.EACCES, linux.ENOSPC, linux.EROFS,
	syscall.ENOTDIR,
	os.ErrNotExist,
	fmt.Errorf("wrapped: %w", linux.EBUSY),
	&os.PathError{Op: "open", Path: "/x", Err: syscall.EMFILE},
	errors.New("opaque backend failure"),
}
