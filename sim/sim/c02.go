package sim

import (
	"encoding/binary"
	"fmt"

	rc "github.com/hugelgupf/p9/zzverif/refcodec"
	"github.com/hugelgupf/p9/zzverif/simfs"
	"github.com/hugelgupf/p9/zzverif/simnet"
	"github.com/hugelgupf/p9/zzverif/simrt"
)

// C02 — decoder safety, bounded buffering, frame resynchronisation.
//
// A byte stream is built from valid frames (drawn by the C04 request
// generator) and mutated frames: bit flips, overwritten size / type / count /
// string-length fields, truncation, boundary sizes.  The independent codec
// classifies every frame:
//
//	exact       must be delivered with exactly its encoded values: the C04
//	            session model and the backend call log judge the reply
//	trailing    valid message followed by extra bytes: accept or reject
//	malformed / unknown type   must be rejected: Rlerror (tag of the frame or
//	            NOTAG), exactly size bytes consumed, later frames still served
//	size < 7 or > msize        fatal: the connection ends, the body is not read
//
// Frames are fed one at a time and the system is run to quiescence after each:
// the reply must be there without a single byte of the next frame ("never
// waits once a frame is complete").  Every Read the server issues is recorded
// by the pipe: its buffer length bounds what the receiver allocated.

type c02Frame struct {
	raw   []byte
	what  string
	fatal bool
}

func c02Mutate(ch func(int) int, f []byte, msize uint32) ([]byte, string) {
	b := append([]byte{}, f...)
	switch ch(12) {
	case 0, 1: // bit flip anywhere
		i := ch(len(b))
		b[i] ^= 1 << uint(ch(8))
		return b, fmt.Sprintf("bitflip@%d", i)
	case 2: // type byte
		b[4] = byte(ch(256))
		return b, "type"
	case 3: // size field: boundary values
		sz := []uint32{0, 1, 6, 7, 8, msize - 1, msize, msize + 1, 4<<20 - 1, 4 << 20, 4<<20 + 1, 1 << 31, 0xFFFFFFFF, uint32(len(b)) + 1, uint32(len(b)) - 1}[ch(15)]
		binary.LittleEndian.PutUint32(b[0:4], sz)
		return b, fmt.Sprintf("size=%d", sz)
	case 4: // truncate body but keep size consistent (body too short for its type)
		if len(b) > 7 {
			n := 7 + ch(len(b)-7)
			b = b[:n]
			binary.LittleEndian.PutUint32(b[0:4], uint32(n))
			return b, fmt.Sprintf("short-body %d", n)
		}
	case 5: // append trailing bytes, size consistent
		extra := 1 + ch(9)
		for i := 0; i < extra; i++ {
			b = append(b, byte(ch(256)))
		}
		binary.LittleEndian.PutUint32(b[0:4], uint32(len(b)))
		return b, fmt.Sprintf("trailing +%d", extra)
	case 6: // a 2-byte field (string length / list count) blown up
		if len(b) > 9 {
			i := 7 + ch(len(b)-8)
			binary.LittleEndian.PutUint16(b[i:], []uint16{0xFFFF, 0x7FFF, uint16(len(b)), 256}[ch(4)])
			return b, fmt.Sprintf("u16@%d", i)
		}
	case 7: // a 4-byte field (count) blown up
		if len(b) > 11 {
			i := 7 + ch(len(b)-10)
			binary.LittleEndian.PutUint32(b[i:], []uint32{0xFFFFFFFF, 1 << 31, uint32(len(b)), msize, 4 << 20}[ch(5)])
			return b, fmt.Sprintf("u32@%d", i)
		}
	case 8: // random bytes of plausible length
		n := 7 + ch(40)
		b = make([]byte, n)
		for i := range b {
			b[i] = byte(ch(256))
		}
		binary.LittleEndian.PutUint32(b[0:4], uint32(n))
		return b, "random"
	case 9: // R-type sent to a server
		m := rc.New(uint8([]int{rc.TypeRlerror, rc.TypeRwalk, rc.TypeRread, rc.TypeRversion, rc.TypeRclunk, rc.TypeRgetattr}[ch(6)]))
		return rc.Encode(binary.LittleEndian.Uint16(b[5:7]), m), "R-type"
	case 11: // a Twrite whose count is smaller than the data it carries
		if b[4] == rc.TypeTwrite && len(b) > 24 {
			have := uint32(len(b) - 23)
			binary.LittleEndian.PutUint32(b[19:], []uint32{0, 1, have / 2, have - 1}[ch(4)])
			return b, "twrite-count-lowered"
		}
	case 10: // header only, size says header only, for a type that needs a body
		b = b[:7]
		binary.LittleEndian.PutUint32(b[0:4], 7)
		return b, "header-only"
	}
	return b, "none"
}

func runC02(rcx *RunCtx) {
	if rcx.Index%4 == 3 {
		runC02Client(rcx)
		return
	}
	cfg := simCfg(rcx)
	p := rcx.Plan
	msize := []uint32{8192, 4096, 512, 65536}[p.Choose(4)]
	nframes := 6 + p.Choose(40)
	seg := []int{simnet.SegWhole, simnet.SegRandom, simnet.SegByte}[p.Choose(3)]
	preVersion := p.Choose(6) == 0 // start sending before any Tversion
	endMid := p.Choose(4) == 0     // the stream ends inside the last frame
	wga := p.Choose(2) == 1
	rcx.Label = "server"
	var log []string
	nbad, nfatal, ngood := 0, 0, 0
	rcx.Res = simrt.Run(cfg, rcx.Sched, func() {
		fs := simfs.New()
		fs.WalkGetAttrENOSYS = wga
		c04Tree(fs)
		w := NewWorld(nil, fs)
		c := w.Connect()
		c.Net.C2S.Seg = seg
		model := newSessModel()
		find := func(oracle, key, format string, args ...interface{}) {
			rcx.Find("C02", oracle, key, format, args...)
		}
		curMsize := uint32(4 << 20) // before negotiation
		sent := int64(0)
		feed := func(raw []byte, what string, msg rc.Message, exact bool) bool {
			size, typ, tag := rc.ParseHeader(raw)
			fatal := size < 7 || size > curMsize
			if !fatal && int(size) != len(raw) {
				// the frame IS what its size field says: cut or pad to that length
				if int(size) < len(raw) {
					raw = raw[:size]
				} else {
					pad := make([]byte, int(size)-len(raw))
					for i := range pad {
						pad[i] = byte(i * 13)
					}
					raw = append(append([]byte{}, raw...), pad...)
				}
			}
			mark := len(fs.Calls)
			nrep := len(c.Mon.Rep.Frames)
			var v verdict
			m2, class := rc.DecodeBody(typ, raw[7:])
			if !fatal && (class == rc.Exact || class == rc.Trailing) {
				// judged against the state BEFORE the request runs; a mutation that
				// happens to be a valid message is judged as that message
				if !exact {
					msg = m2
				}
				v = model.judge(msg)
			}
			if len(raw) > 1<<16 {
				c.Net.C2S.Seg = simnet.SegWhole // a multi-megabyte frame byte by byte would only burn steps
			}
			c.Net.A.Write(raw)
			simrt.WaitQuiescent()
			c.Net.C2S.Seg = seg
			newReplies := c.Mon.Rep.Frames[nrep:]
			if len(log) < 40 {
				r := "-"
				if len(newReplies) > 0 {
					r = newReplies[0].String()
				}
				log = append(log, fmt.Sprintf("%s [%s] -> %s", trunc(fmt.Sprintf("%x", raw), 40), what, r))
			}
			if fatal {
				nfatal++
				// the connection ends; the body must not be read
				if len(newReplies) > 0 {
					find("reply-to-fatal-frame", "fatal", "frame with size field %d (limit %d) was answered: %s", size, curMsize, newReplies[0])
				}
				if !c.HandleReturned {
					find("connection-not-ended", "fatal", "frame with size field %d (limit %d, %s) did not end the connection", size, curMsize, what)
				}
				if got := c.Net.C2S.Consumed(); got > sent+7 {
					find("body-read-after-bad-size", "fatal", "size field %d is out of range, yet %d bytes beyond the header were consumed", size, got-sent-7)
				}
				return false
			}
			sent += int64(len(raw))
			if c.HandleReturned {
				find("connection-ended", what, "the connection ended on a well-delimited frame (%s, class %v, size %d)", what, exact, size)
				return false
			}
			if got := c.Net.C2S.Consumed(); got != sent {
				find("resync", what, "after a %s frame of %d bytes the receiver has consumed %d bytes of the stream, expected %d", what, size, got, sent)
				return false
			}
			if len(newReplies) != 1 {
				find("reply-count", what, "a complete, well-delimited frame (%s, type %d, %d bytes) got %d replies without further input", what, typ, size, len(newReplies))
				return false
			}
			rep := newReplies[0]
			switch class {
			case rc.Exact:
				ngood++
				if rep.Tag != tag {
					find("wrong-tag", what, "frame tag %d answered with tag %d", tag, rep.Tag)
				}
				model.checkStep(find, v, msg, rep.Msg, fs.Calls[mark:])
				if rv, ok := rep.Msg.(*rc.Rversion); ok && rv.Msize > 0 {
					curMsize = rv.Msize
				}
			case rc.Trailing:
				if rep.Tag != tag && rep.Tag != rc.NoTag {
					find("wrong-tag", what, "frame tag %d answered with tag %d", tag, rep.Tag)
				}
				if typ == rc.TypeTwrite {
					// not just bytes after a complete message: the count
					// disagrees with the data the frame carries
					if _, isErr := rep.Msg.(*rc.Rlerror); !isErr {
						find("bad-frame-accepted", what, "a Twrite whose count field disagrees with the %d bytes of data it carries (%s) must be rejected, got %s", size-23, what, rep)
					}
					for _, cl := range fs.Calls[mark:] {
						if cl.Method == "WriteAt" {
							find("bad-frame-reached-backend", what, "a Twrite with an inconsistent count (%s) was executed: %s", what, cl)
						}
					}
				}
				// accepted or rejected; if accepted the model must be told
				if _, isErr := rep.Msg.(*rc.Rlerror); !isErr {
					model.checkStep(find, v, m2, rep.Msg, fs.Calls[mark:])
				} else {
					for _, f := range fidsOf(m2) {
						model.maybe[f] = true
					}
				}
				if rv, ok := rep.Msg.(*rc.Rversion); ok && rv.Msize > 0 {
					curMsize = rv.Msize
				}
			default: // malformed, unknown type
				nbad++
				if _, isErr := rep.Msg.(*rc.Rlerror); !isErr {
					find("bad-frame-accepted", what, "frame (%s, class %s, type %d) must be rejected, got %s", what, class, typ, rep)
				}
				if rep.Tag != tag && rep.Tag != rc.NoTag {
					find("wrong-tag", what, "rejected frame with tag %d answered with tag %d", tag, rep.Tag)
				}
				for _, cl := range fs.Calls[mark:] {
					if cl.Method != "Close" {
						find("bad-frame-reached-backend", what, "a frame that does not decode (%s) caused backend call %s", what, cl)
					}
				}
			}
			return len(rcx.Findings) == 0
		}
		good := func(m rc.Message) ([]byte, rc.Message) {
			tag := c.Tag()
			if _, ok := m.(*rc.Tversion); ok {
				tag = rc.NoTag
			}
			return rc.Encode(tag, m), m
		}
		alive := true
		if !preVersion {
			raw, m := good(&rc.Tversion{Msize: msize, Version: "9P2000.L.Google.7"})
			alive = feed(raw, "good", m, true)
			if alive {
				raw, m = good(&rc.Tattach{Fid: 0, Afid: rc.NoFid, Uname: "u", Aname: "", NUname: rc.NoUID})
				alive = feed(raw, "good", m, true)
			}
		}
		for i := 0; i < nframes && alive; i++ {
			m := genRandomReq(simrt.Choose, model.boundFids)
			if simrt.Choose(12) == 0 {
				// negotiate again, with another msize: the limit that counts
				// is the one of the latest Rversion
				m = &rc.Tversion{Msize: []uint32{curMsize / 2, curMsize * 2, 4096, 65536, 300}[simrt.Choose(5)], Version: "9P2000.L.Google.7"}
				rcx.Count("renegotiations", 1)
			}
			raw, _ := good(m)
			if uint32(len(raw)) > curMsize {
				continue
			}
			if simrt.Choose(5) < 2 {
				mut, what := c02Mutate(simrt.Choose, raw, curMsize)
				if i == nframes-1 && endMid {
					break
				}
				simrt.Fault("peer.mutated-frame")
				alive = feed(mut, what, nil, false)
			} else {
				alive = feed(raw, "good", m, true)
			}
		}
		if bf := model.boundFids(); alive && !endMid && len(rcx.Findings) == 0 && len(bf) > 0 && curMsize >= 512 {
			// A burst of frames in one write, good and rejected ones mixed:
			// the replies (also the Rlerrors for the rejected frames) are
			// written while other replies are being written; the reply stream
			// must stay a sequence of whole frames, one per frame sent, and
			// the frames after a rejected one are still served.
			nrep := len(c.Mon.Rep.Frames)
			var burst []byte
			goodTags := map[uint16]bool{}
			k := 3 + simrt.Choose(6)
			for j := 0; j < k; j++ {
				tag := c.Tag()
				switch simrt.Choose(3) {
				case 0:
					burst = append(burst, rc.Encode(tag, &rc.Opaque{Type: []uint8{3, 211}[simrt.Choose(2)], Body: make([]byte, simrt.Choose(9))})...)
				default:
					burst = append(burst, rc.Encode(tag, &rc.Tgetattr{Fid: bf[simrt.Choose(len(bf))], Mask: rc.GetattrAll})...)
					goodTags[tag] = true
				}
			}
			c.Net.A.Write(burst)
			simrt.WaitQuiescent()
			rcx.Count("bursts", 1)
			got := c.Mon.Rep.Frames[nrep:]
			for _, fr := range got {
				if fr.Class != rc.Exact {
					find("reply-stream-corrupted", "burst", "after a burst of %d frames (good and rejected mixed) the reply stream contains something that is not a frame: %s", k, fr)
					break
				}
				delete(goodTags, fr.Tag)
			}
			if len(rcx.Findings) == 0 && (len(got) != k || len(goodTags) > 0) {
				find("reply-count", "burst", "a burst of %d well-delimited frames got %d replies; good frames left unanswered: %d", k, len(got), len(goodTags))
			}
		}
		if alive && endMid && len(rcx.Findings) == 0 {
			// the stream ends inside a frame: connection error, no truncated message
			raw, _ := good(&rc.Tmkdir{Dfid: 0, Name: "never-created", Mode: 0o700})
			cut := 1 + simrt.Choose(len(raw)-1)
			mark := len(fs.Calls)
			nrep := len(c.Mon.Rep.Frames)
			c.Net.A.Write(raw[:cut])
			c.Close()
			simrt.WaitQuiescent()
			for _, cl := range fs.Calls[mark:] {
				if cl.Method != "Close" {
					find("truncated-frame-delivered", "eof", "a frame cut after %d of %d bytes caused backend call %s", cut, len(raw), cl)
				}
			}
			if len(c.Mon.Rep.Frames) != nrep {
				find("truncated-frame-answered", "eof", "a frame cut after %d of %d bytes was answered", cut, len(raw))
			}
		}
		// bounded buffering
		if mb := c.Net.C2S.MaxReadBuf; mb > 4<<20 {
			find("unbounded-buffer", "read", "the receiver issued a Read with a %d-byte buffer (limit 4 MiB)", mb)
		}
		w.Shutdown()
		rcx.Findings = append(rcx.Findings, w.Findings...)
	})
	rcx.Count("frames.good", ngood)
	rcx.Count("frames.rejected", nbad)
	rcx.Count("frames.fatal", nfatal)
	if len(log) > 10 {
		log = log[:10]
	}
	rcx.Sample = map[string]interface{}{"receiver": "server", "msize": msize, "segmentation": seg, "before_version": preVersion, "stream_head": log}
	finishRun(rcx)
	for i := range rcx.Findings {
		if rcx.Findings[i].Oracle == "task-panic" {
			rcx.Findings[i].Prop = "C02"
		}
	}
}

func init() {
	Register(&Engine{
		ID:   "C02",
		Desc: "decoder safety: no panic, bounded buffering, frame resynchronisation (server and client as receivers)",
		Run:  runC02,
		Quick: 64000, Thorough: 4500000, QuickSecs: 60, ThorSecs: 1500,
		Rule:  "streams of 6-46 frames: valid requests from the C04 generator, 40% mutated (bit flips, type byte, size field in {0,1,6,7,8,msize-1,msize,msize+1,4MiB+-1,2^31,2^32-1,len+-1}, body truncated with consistent size, trailing bytes, 2- and 4-byte count/length fields blown up, Twrite counts lowered below the data carried, random bytes, R-types, header-only), optionally before Tversion, optionally ending inside a frame; x segmentation (whole / random / single bytes); client as receiver: fake-server replies mutated the same way. Frames are fed one at a time with a run to quiescence in between; now and then a Tversion with another msize re-negotiates (the limit that counts is the latest); at the end a burst of 3-8 good and rejected frames in one write, whose replies must form a sequence of whole frames, one per frame sent. Oracle: independent three-valued classifier (refcodec): exact frames judged by the C04 session model and the backend call log (delivered values), malformed/unknown-type frames answered Rlerror with exactly size bytes consumed and no backend call, size<7 or >msize ends the connection without the body being read, trailing bytes either way; exactly one reply per well-delimited frame before any byte of the next; every Read buffer <= 4 MiB; no panic reaches the top of a goroutine.",
		Assume: []string{"the tag of the Rlerror for an undecodable frame may be the frame's tag or NOTAG", "a mutated frame that is itself a valid message is judged as that message (reply and tag only)"},
		Real:   []string{"p9 recv/decode paths (server and client)", "p9.Server", "p9.Client"},
		Stub:   []string{"transport (simnet pipes)", "raw 9P peer / fake server (refcodec)", "backend tree (simfs)"},
		Owns:   []string{"C04"},
	})
}
