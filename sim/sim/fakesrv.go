package sim

import (
	"encoding/binary"
	"fmt"

	rc "github.com/hugelgupf/p9/zzverif/refcodec"
	"github.com/hugelgupf/p9/zzverif/simnet"
	"github.com/hugelgupf/p9/zzverif/simrt"
)

// FakeSrv is the scripted 9P server of engine E2: the real p9.Client talks to
// it over simnet.  It learns of requests from the wire monitor (at the step
// the client's write completes a frame), answers them in whatever order the
// tape picks, with replies whose content is derived from a per-request nonce,
// and can misbehave on demand.  It also carries the wire-level oracles of C10
// (distinct tags and fids).

type fsReq struct {
	Frame    *FrameRec
	Msg      rc.Message
	Reply    rc.Message // what we answered (nil: not yet / never)
	Answered bool
	Caller   *simrt.Task
	Nonce    uint64
	Seq      int
}

type FakeSrv struct {
	Net  *simnet.Conn
	Mon  *ConnMon
	Reqs []*fsReq // every request ever seen, in arrival order
	pend []*fsReq // unanswered

	bound    simrt.PMap[uint32, bool] // fids the server has bound
	binding  simrt.PMap[uint32, *fsReq]
	inflight simrt.PMap[uint16, *fsReq]
	Findings []Finding

	// configuration
	Msize       uint32 // offered msize (0: echo the request's)
	Version     string // offered version ("" : echo)
	ErrPct      int    // percentage of requests answered Rlerror
	ShortPct    int    // percentage of reads/writes answered short
	EAgain      int    // answer the first EAgain Tversions with Rlerror(EAGAIN)
	VersionErr  uint32 // answer Tversion with this Rlerror (after EAgain)
	Policy      func(r *fsReq) rc.Message // optional override: return a reply or nil for the default
	AutoRespond bool   // answer from within the responder task in tape order
	stop        bool
	nonce       uint64
	broken      bool // the server has itself violated the protocol: no fid oracle afterwards
	maxFrame    uint32
}

func NewFakeSrv(name string) *FakeSrv {
	f := &FakeSrv{Net: simnet.NewConn(name)}
	liveFakes = append(liveFakes, f)
	f.Mon = NewConnMon(name, f.Net)
	f.Mon.CheckReqMsize = true
	f.Mon.Req.OnFrame = func(fr *FrameRec) {
		f.Mon.onReq(fr)
		f.onRequest(fr)
	}
	return f
}

func (f *FakeSrv) find(prop, oracle, key, format string, args ...interface{}) {
	fd := Finding{Prop: prop, Oracle: oracle, Key: oracle + ":" + key, Detail: fmt.Sprintf(format, args...)}
	f.Findings = simrt.Push(f.Findings, fd)
	simrt.Event("VIOLATION %s", fd)
}

// newFidOf returns the fid a request asks the server to bind, if any.
func newFidOf(m rc.Message) (uint32, bool) {
	switch t := m.(type) {
	case *rc.Tattach:
		return t.Fid, true
	case *rc.Twalk:
		return t.NewFid, true
	case *rc.Twalkgetattr:
		return t.NewFid, true
	case *rc.Txattrwalk:
		return t.NewFid, true
	}
	return 0, false
}

func (f *FakeSrv) onRequest(fr *FrameRec) {
	r := &fsReq{Frame: fr, Msg: fr.Msg, Seq: len(f.Reqs)}
	if len(fr.Writers) > 0 {
		r.Caller = fr.Writers[0]
	}
	f.nonce++
	r.Nonce = f.nonce*0x9E3779B97F4A7C15 + 12345
	f.Reqs = simrt.Push(f.Reqs, r)
	f.pend = simrt.Push(f.pend, r)
	if fr.Class != rc.Exact {
		return
	}
	// C10: tags outstanding are pairwise distinct and never NOTAG
	if _, isVer := fr.Msg.(*rc.Tversion); !isVer && fr.Tag == rc.NoTag {
		f.find("C10", "notag-used", "tag", "request %s uses NOTAG", fr)
	}
	if o := f.inflight.Get(fr.Tag); o != nil && !f.broken {
		f.find("C10", "tag-reused-in-flight", "tag", "request %s uses tag %d while %s is still unanswered", fr, fr.Tag, o.Frame)
	}
	f.inflight.Set(fr.Tag, r)
	// C10: a fid is given to a new File only when the server no longer has it bound
	if nf, ok := newFidOf(fr.Msg); ok && !f.broken {
		if nf == rc.NoFid {
			f.find("C10", "nofid-used", "fid", "request %s asks to bind NOFID", fr)
		}
		if f.bound.Get(nf) {
			f.find("C10", "fid-reused-while-bound", "fid", "request %s asks to bind fid %d, which the server still has bound", fr, nf)
		}
		if o := f.binding.Get(nf); o != nil {
			f.find("C10", "fid-reused-while-binding", "fid", "request %s asks to bind fid %d while %s, which binds it, is unanswered", fr, nf, o.Frame)
		}
		f.binding.Set(nf, r)
	}
}

// Pending returns the unanswered requests.
func (f *FakeSrv) Pending() []*fsReq { return f.pend }

func (f *FakeSrv) removePending(r *fsReq) {
	for i, x := range f.pend {
		if x == r {
			f.pend = simrt.RemoveAt(simrt.Clone(f.pend), i)
			return
		}
	}
}

// noteReply updates the server-side fid table.
func (f *FakeSrv) noteReply(r *fsReq, rep rc.Message) {
	r.Reply, r.Answered = rep, true
	f.removePending(r)
	f.inflight.Del(r.Frame.Tag)
	_, isErr := rep.(*rc.Rlerror)
	if nf, ok := newFidOf(r.Msg); ok {
		if f.binding.Get(nf) == r {
			f.binding.Del(nf)
		}
		if !isErr {
			f.bound.Set(nf, true)
		}
	}
	// C10 lets a fid number be given out again only once "its clunk or remove
	// was confirmed".  A clunk or remove answered with Rlerror confirms nothing:
	// whether this server released the fid is unknown to the client, so the
	// fake plays the server that did not.
	if isErr {
		return
	}
	switch t := r.Msg.(type) {
	case *rc.Tclunk:
		f.bound.Del(t.Fid)
	case *rc.Tremove:
		f.bound.Del(t.Fid)
	}
}

func nbytes(n uint64, k int) []byte {
	out := make([]byte, k)
	x := n
	for i := range out {
		x = x*6364136223846793005 + 1442695040888963407
		out[i] = byte(x >> 56)
	}
	return out
}

func nqid(n uint64) rc.QID {
	return rc.QID{Type: []uint8{0, rc.QTDir, rc.QTSymlink, rc.QTAppend, rc.QTTmp}[n%5], Version: uint32(n >> 8), Path: n ^ 0xABCDEF}
}

func nattr(n uint64) rc.Attr {
	g := func(k uint64) uint64 { return (n + k) * 0x2545F4914F6CDD1D }
	return rc.Attr{Mode: uint32(g(1)) & 0o177777, UID: uint32(g(2)), GID: uint32(g(3)), NLink: g(4), RDev: g(5), Size: g(6), BlockSize: g(7), Blocks: g(8),
		ATimeSec: g(9), ATimeNsec: g(10), MTimeSec: g(11), MTimeNsec: g(12), CTimeSec: g(13), CTimeNsec: g(14), BTimeSec: g(15), BTimeNsec: g(16), Gen: g(17), DataVersion: g(18)}
}

// DefaultReply builds the nonce-derived success reply for a request.
func (f *FakeSrv) DefaultReply(r *fsReq) rc.Message {
	n := r.Nonce
	ch := func(k int) int { return int((n >> 20) % uint64(k)) }
	switch m := r.Msg.(type) {
	case *rc.Tversion:
		ms, v := m.Msize, m.Version
		if f.Msize != 0 && f.Msize < ms {
			ms = f.Msize
		}
		if f.Version != "" {
			v = f.Version
		}
		return &rc.Rversion{Msize: ms, Version: v}
	case *rc.Tattach:
		return &rc.Rattach{QID: nqid(n)}
	case *rc.Twalk:
		var qs []rc.QID
		for i := range m.Names {
			qs = append(qs, nqid(n+uint64(i)))
		}
		return &rc.Rwalk{QIDs: qs}
	case *rc.Twalkgetattr:
		var qs []rc.QID
		for i := range m.Names {
			qs = append(qs, nqid(n+uint64(i)))
		}
		return &rc.Rwalkgetattr{Valid: n & rc.GetattrAll, Attr: nattr(n), QIDs: qs}
	case *rc.Tgetattr:
		return &rc.Rgetattr{Valid: (n >> 3) & rc.GetattrAll, QID: nqid(n), Attr: nattr(n)}
	case *rc.Tstatfs:
		return &rc.Rstatfs{Type: uint32(n), Bsize: uint32(n >> 7), Blocks: n * 3, Bfree: n * 5, Bavail: n * 7, Files: n * 11, Ffree: n * 13, Fsid: n * 17, Namelen: uint32(n >> 9)}
	case *rc.Tlopen:
		return &rc.Rlopen{QID: nqid(n), Iounit: uint32(n >> 5)}
	case *rc.Tlcreate:
		return &rc.Rlcreate{QID: nqid(n), Iounit: uint32(n >> 5)}
	case *rc.Tucreate:
		return &rc.Rucreate{QID: nqid(n), Iounit: uint32(n >> 5)}
	case *rc.Tmkdir:
		return &rc.Rmkdir{QID: nqid(n)}
	case *rc.Tumkdir:
		return &rc.Rumkdir{QID: nqid(n)}
	case *rc.Tsymlink:
		return &rc.Rsymlink{QID: nqid(n)}
	case *rc.Tusymlink:
		return &rc.Rusymlink{QID: nqid(n)}
	case *rc.Tmknod:
		return &rc.Rmknod{QID: nqid(n)}
	case *rc.Tumknod:
		return &rc.Rumknod{QID: nqid(n)}
	case *rc.Treadlink:
		return &rc.Rreadlink{Target: string(nbytes(n, ch(40)))}
	case *rc.Tread:
		k := int(m.Count)
		if f.ShortPct > 0 && ch(100) < f.ShortPct && k > 0 {
			k = int(n>>30) % (k + 1)
		}
		if k > 1<<22 {
			k = 1 << 22
		}
		return &rc.Rread{Data: nbytes(n, k)}
	case *rc.Twrite:
		k := len(m.Data)
		if f.ShortPct > 0 && ch(100) < f.ShortPct && k > 0 {
			k = int(n>>30) % (k + 1)
		}
		return &rc.Rwrite{Count: uint32(k)}
	case *rc.Treaddir:
		var ds []rc.Dirent
		used := 0
		for i := 0; i < ch(12); i++ {
			d := rc.Dirent{QID: nqid(n + uint64(i)), Offset: m.Offset + uint64(i) + 1, Type: uint8(n >> uint(i)), Name: fmt.Sprintf("e%x", nbytes(n+uint64(i), 1+i%7))}
			if used+rc.DirentSize(d.Name) > int(m.Count) {
				break
			}
			used += rc.DirentSize(d.Name)
			ds = append(ds, d)
		}
		return &rc.Rreaddir{Data: rc.EncodeDirents(ds)}
	case *rc.Txattrwalk:
		return &rc.Rxattrwalk{Size: uint64(ch(300))}
	case *rc.Tlock:
		return &rc.Rlock{Status: uint8(n % 4)}
	case *rc.Tauth:
		return &rc.Rauth{Aqid: nqid(n)}
	}
	// requests with an empty reply
	if rep := rc.New(rc.ReplyType(r.Msg.MsgType())); rep != nil {
		return rep
	}
	return &rc.Rlerror{Ecode: ENOSYS}
}

var fakeErrnos = []uint32{EPERM, ENOENT, EIO, EBADF, EACCES, EBUSY, EEXIST, ENOTDIR, EISDIR, EINVAL, ENOTEMPTY, ENODATA, 28, 30, 95, 122}

// Respond answers one pending request (default: nonce-derived reply, or an
// Rlerror with probability ErrPct).
func (f *FakeSrv) Respond(r *fsReq) {
	var rep rc.Message
	if f.Policy != nil {
		rep = f.Policy(r)
	}
	if rep == nil {
		if _, isVer := r.Msg.(*rc.Tversion); isVer {
			if f.EAgain > 0 {
				f.EAgain--
				rep = &rc.Rlerror{Ecode: EAGAIN}
			} else if f.VersionErr != 0 {
				rep = &rc.Rlerror{Ecode: f.VersionErr}
			}
		} else if f.ErrPct > 0 && int((r.Nonce>>40)%100) < f.ErrPct {
			rep = &rc.Rlerror{Ecode: fakeErrnos[(r.Nonce>>13)%uint64(len(fakeErrnos))]}
		}
	}
	if rep == nil {
		rep = f.DefaultReply(r)
	}
	f.SendReply(r, rep)
}

// SendReply writes rep as the answer to r.
func (f *FakeSrv) SendReply(r *fsReq, rep rc.Message) {
	f.noteReply(r, rep)
	f.Net.B.Write(rc.Encode(r.Frame.Tag, rep))
}

// SendRaw writes arbitrary bytes to the client; the server has then left the
// protocol, so the fid oracle is off from here on.
func (f *FakeSrv) SendRaw(b []byte) {
	f.broken = true
	f.Net.B.Write(b)
}

// Stop ends the responder.
func (f *FakeSrv) Stop() { f.stop = true }

// Serve runs the responder: it answers pending requests in an order chosen by
// the tape until stopped.  hook, if set, is consulted before each answer and
// may act instead (fault injection); it returns true if it handled things.
func (f *FakeSrv) Serve(hook func(f *FakeSrv) bool) {
	simrt.Current().Role = "fakesrv"
	for {
		simrt.Block("fakesrv: wait for request", func() bool {
			return f.stop || len(f.pend) > 0 || (f.Net.C2S.WriteErrors > 0 && !f.Net.S2C.WriteClosed())
		})
		if f.stop {
			return
		}
		if hook != nil && hook(f) {
			continue
		}
		if len(f.pend) == 0 {
			continue
		}
		// answer any pending request; choice 0 = the oldest
		r := f.pend[simrt.Choose(len(f.pend))]
		f.Respond(r)
	}
}

// BadFrame builds a frame the client cannot accept.
func BadFrame(kind int, tag uint16, msize uint32) ([]byte, string) {
	switch kind {
	case 0: // garbage body for a known reply type
		b := rc.Encode(tag, &rc.Rgetattr{})
		b = b[:len(b)-20]
		binary.LittleEndian.PutUint32(b, uint32(len(b)))
		return b, "short Rgetattr body"
	case 1: // unknown tag
		return rc.Encode(tag+1000, &rc.Rclunk{}), "unknown tag"
	case 2: // wrong reply type
		return rc.Encode(tag, &rc.Rstatfs{}), "wrong reply type"
	case 3: // size < 7
		b := make([]byte, 7)
		binary.LittleEndian.PutUint32(b, 3)
		return b, "size 3"
	case 4: // size > msize
		b := rc.Encode(tag, &rc.Rclunk{})
		binary.LittleEndian.PutUint32(b, msize+1)
		return b, "size msize+1"
	case 5: // unknown type
		b := rc.Encode(tag, &rc.Rclunk{})
		b[4] = 200
		return b, "unknown type"
	case 6: // Rread with a count larger than its payload
		b := rc.Encode(tag, &rc.Rread{Data: []byte("abc")})
		binary.LittleEndian.PutUint32(b[7:], 1000)
		return b, "Rread count > payload"
	}
	b := rc.Encode(tag, &rc.Rlerror{Ecode: EIO})[:9]
	binary.LittleEndian.PutUint32(b, uint32(len(b)))
	return b, "truncated Rlerror"
}
