package sim

import (
	"fmt"
	"strings"

	rc "github.com/hugelgupf/p9/zzverif/refcodec"
	"github.com/hugelgupf/p9/zzverif/simfs"
)

// Linux errno values used by the oracles (from errno-base.h / errno.h).
const (
	EPERM     = 1
	ENOENT    = 2
	EIO       = 5
	EBADF     = 9
	EAGAIN    = 11
	EACCES    = 13
	EFAULT    = 14
	EBUSY     = 16
	EEXIST    = 17
	ENOTDIR   = 20
	EISDIR    = 21
	EINVAL    = 22
	ENOSYS    = 38
	ENOTEMPTY = 39
	ENODATA   = 61
	ENOBUFS   = 105
)

// opSpec describes one kind of backend-reaching request for the directed
// C06/C07/C14/C15 catalogues.
type opSpec struct {
	Name string
	// Need: kind of node the fid must denote (-1 any, -2 any non-root).
	Need int
	// Open: 0 fid must be unopened, 1 opened read-write (dir: read-only).
	Open int
	// Method is the backend method the request reaches first (the call the
	// scenario parks in), OnParent: the call's receiver is the parent directory.
	Method   string
	OnParent bool
	// Build makes the request.  fid is the prepared fid, aux a second fid on a
	// directory (link target / rename destination), tagc disambiguates names.
	Build func(fid, aux uint32, role string, base string) rc.Message
	// Victim: name argument of the call (UnlinkAt/RenameAt) for conflict purposes.
	Victim func(role, base string) string
	// NeedsAux: kind of the aux fid ("dir": a directory elsewhere, "file": a regular file)
	Aux string
}

// pairVariant varies request details that do not change which backend method
// a request reaches (the Tsetattr mask); set per run by runPair.
var pairVariant int

const (
	anyKind     = -1
	anyNonRoot  = -2
)

var opTable = []*opSpec{
	{Name: "walk1", Need: int(simfs.Dir), Method: "WalkGetAttr", Build: func(fid, aux uint32, role, base string) rc.Message {
		return &rc.Twalk{Fid: fid, NewFid: newFidFor(role), Names: []string{"v" + role}}
	}},
	{Name: "clone", Need: anyKind, Method: "Walk", Build: func(fid, aux uint32, role, base string) rc.Message {
		return &rc.Twalk{Fid: fid, NewFid: newFidFor(role)}
	}},
	{Name: "getattr", Need: anyKind, Method: "GetAttr", Build: func(fid, aux uint32, role, base string) rc.Message {
		return &rc.Tgetattr{Fid: fid, Mask: rc.GetattrAll}
	}},
	{Name: "open", Need: int(simfs.Reg), Method: "Open", Build: func(fid, aux uint32, role, base string) rc.Message {
		return &rc.Tlopen{Fid: fid, Flags: 2}
	}},
	{Name: "opendir", Need: int(simfs.Dir), Method: "Open", Build: func(fid, aux uint32, role, base string) rc.Message {
		return &rc.Tlopen{Fid: fid, Flags: 0}
	}},
	{Name: "read", Need: int(simfs.Reg), Open: 1, Method: "ReadAt", Build: func(fid, aux uint32, role, base string) rc.Message {
		return &rc.Tread{Fid: fid, Offset: 0, Count: 16}
	}},
	{Name: "write", Need: int(simfs.Reg), Open: 1, Method: "WriteAt", Build: func(fid, aux uint32, role, base string) rc.Message {
		return &rc.Twrite{Fid: fid, Offset: 3, Data: []byte("W" + role)}
	}},
	{Name: "fsync", Need: int(simfs.Reg), Open: 1, Method: "FSync", Build: func(fid, aux uint32, role, base string) rc.Message {
		return &rc.Tfsync{Fid: fid}
	}},
	{Name: "readdir", Need: int(simfs.Dir), Open: 1, Method: "Readdir", Build: func(fid, aux uint32, role, base string) rc.Message {
		return &rc.Treaddir{Fid: fid, Offset: 0, Count: 512}
	}},
	{Name: "readlink", Need: int(simfs.Symlink), Method: "Readlink", Build: func(fid, aux uint32, role, base string) rc.Message {
		return &rc.Treadlink{Fid: fid}
	}},
	{Name: "setattr", Need: anyKind, Method: "SetAttr", Build: func(fid, aux uint32, role, base string) rc.Message {
		// every mask is a SetAttr: mode, times only, nothing at all, size, owner
		switch pairVariant % 5 {
		case 1:
			return &rc.Tsetattr{Fid: fid, Valid: rc.SetattrAtime | rc.SetattrMtime}
		case 2:
			return &rc.Tsetattr{Fid: fid, Valid: 0}
		case 3:
			return &rc.Tsetattr{Fid: fid, Valid: rc.SetattrSize, Size: 3}
		case 4:
			return &rc.Tsetattr{Fid: fid, Valid: rc.SetattrUID | rc.SetattrGID | rc.SetattrAtime | rc.SetattrAtimeSet, UID: 1, GID: 2, ATimeSec: 9}
		}
		return &rc.Tsetattr{Fid: fid, Valid: rc.SetattrMode, Mode: 0o600}
	}},
	{Name: "create", Need: int(simfs.Dir), Method: "Create", Build: func(fid, aux uint32, role, base string) rc.Message {
		return &rc.Tlcreate{Fid: fid, Name: "new" + role, Flags: 2, Mode: 0o644, GID: 0}
	}},
	{Name: "mkdir", Need: int(simfs.Dir), Method: "Mkdir", Build: func(fid, aux uint32, role, base string) rc.Message {
		return &rc.Tmkdir{Dfid: fid, Name: "newd" + role, Mode: 0o755}
	}},
	{Name: "symlink", Need: int(simfs.Dir), Method: "Symlink", Build: func(fid, aux uint32, role, base string) rc.Message {
		return &rc.Tsymlink{Dfid: fid, Name: "newl" + role, Target: "tgt"}
	}},
	{Name: "mknod", Need: int(simfs.Dir), Method: "Mknod", Build: func(fid, aux uint32, role, base string) rc.Message {
		return &rc.Tmknod{Dfid: fid, Name: "newn" + role, Mode: rc.SIfifo | 0o600}
	}},
	{Name: "link", Need: int(simfs.Dir), Method: "Link", Aux: "file", Build: func(fid, aux uint32, role, base string) rc.Message {
		return &rc.Tlink{Dfid: fid, Fid: aux, Name: "newh" + role}
	}},
	{Name: "unlinkat", Need: int(simfs.Dir), Method: "UnlinkAt", Build: func(fid, aux uint32, role, base string) rc.Message {
		return &rc.Tunlinkat{DirFid: fid, Name: "v" + role}
	}, Victim: func(role, base string) string { return "v" + role }},
	{Name: "renameat", Need: int(simfs.Dir), Method: "RenameAt", Aux: "dir", Build: func(fid, aux uint32, role, base string) rc.Message {
		return &rc.Trenameat{OldDirFid: fid, OldName: "r" + role, NewDirFid: aux, NewName: "moved" + role}
	}},
	{Name: "rename", Need: anyNonRoot, Method: "RenameAt", OnParent: true, Aux: "dir", Build: func(fid, aux uint32, role, base string) rc.Message {
		return &rc.Trename{Fid: fid, Dfid: aux, Name: "renamed" + role}
	}},
	{Name: "remove", Need: anyNonRoot, Method: "UnlinkAt", OnParent: true, Build: func(fid, aux uint32, role, base string) rc.Message {
		return &rc.Tremove{Fid: fid}
	}, Victim: func(role, base string) string { return base }},
	{Name: "statfs", Need: anyKind, Method: "StatFS", Build: func(fid, aux uint32, role, base string) rc.Message {
		return &rc.Tstatfs{Fid: fid}
	}},
	{Name: "lock", Need: int(simfs.Reg), Method: "Lock", Build: func(fid, aux uint32, role, base string) rc.Message {
		return &rc.Tlock{Fid: fid, Type: 1, ClientID: "c" + role}
	}},
	{Name: "xattrwalk", Need: anyKind, Method: "GetXattr", Build: func(fid, aux uint32, role, base string) rc.Message {
		return &rc.Txattrwalk{Fid: fid, NewFid: newFidFor(role), Name: "user.x"}
	}},
	{Name: "clunk", Need: anyKind, Method: "Close", Build: func(fid, aux uint32, role, base string) rc.Message {
		return &rc.Tclunk{Fid: fid}
	}},
}

func newFidFor(role string) uint32 {
	if role == "A" {
		return 900
	}
	return 901
}

func opByName(n string) *opSpec {
	for _, o := range opTable {
		if o.Name == n {
			return o
		}
	}
	return nil
}

// Path relations of the directed catalogue.
var relations = []string{"samefid", "samepath", "parent-child", "child-parent", "siblings", "unrelated", "A-names-B", "B-names-A"}

// The fixed tree every directed scenario starts from.  Every directory holds
// victims vA/vB (for unlinkat / walk1) and rA/rB (for renameat).
var dirPaths = []string{"/d", "/d/sub", "/d/sub2", "/e"}
var regPaths = []string{"/d/f", "/d/f2", "/d/sub/g", "/e/h"}
var lnkPaths = []string{"/d/l", "/d/l2", "/d/sub/l3", "/e/l4"}

func buildDirectedTree(fs *simfs.FS) {
	for _, d := range dirPaths {
		fs.MkPath(d + "/")
		for _, v := range []string{"vA", "vB", "rA", "rB"} {
			fs.MkPath(d + "/" + v)
		}
	}
	fs.MkPath("/aux/")
	fs.MkPath("/aux/file")
	fs.MkPath("/aux2/")
	fs.MkPath("/aux2/file")
	for _, p := range regPaths {
		n := fs.MkPath(p)
		n.SetXattrDirect("user.x", []byte("xv"))
	}
	for _, p := range lnkPaths {
		fs.MkPath(p + "->target")
	}
	for _, d := range dirPaths {
		fs.Lookup(d).SetXattrDirect("user.x", []byte("xv"))
	}
	for _, p := range lnkPaths {
		fs.Lookup(p).SetXattrDirect("user.x", []byte("xv"))
	}
}

func candidates(need int) []string {
	switch need {
	case int(simfs.Dir):
		return dirPaths
	case int(simfs.Reg):
		return regPaths
	case int(simfs.Symlink):
		return lnkPaths
	case anyKind, anyNonRoot:
		var all []string
		all = append(all, regPaths...)
		all = append(all, dirPaths...)
		all = append(all, lnkPaths...)
		return all
	}
	return nil
}

func parentOf(p string) string {
	i := strings.LastIndex(p, "/")
	if i <= 0 {
		return "/"
	}
	return p[:i]
}

func baseOf(p string) string { return p[strings.LastIndex(p, "/")+1:] }

func top(p string) string { return strings.SplitN(strings.TrimPrefix(p, "/"), "/", 2)[0] }

// callPath is the path of the receiver of the op's backend call.
func callPath(o *opSpec, p string) string {
	if o.OnParent {
		return parentOf(p)
	}
	return p
}

// pickPaths finds fid paths for A and B such that the *receivers of their
// backend calls* stand in the given relation.
func pickPaths(a, b *opSpec, rel string) (pa, pb string, ok bool) {
	regOK := func(o *opSpec) bool {
		return (o.Need == int(simfs.Reg) || o.Need == anyKind || o.Need == anyNonRoot) && !o.OnParent
	}
	if rel == "A-names-B" && a.Name == "unlinkat" {
		if regOK(b) {
			return "/d", "/d/vA", true
		}
		return "", "", false
	}
	if rel == "B-names-A" && b.Name == "unlinkat" {
		if regOK(a) {
			return "/d/vB", "/d", true
		}
		return "", "", false
	}
	for _, x := range candidates(a.Need) {
		for _, y := range candidates(b.Need) {
			cx, cy := callPath(a, x), callPath(b, y)
			good := false
			switch rel {
			case "samefid":
				good = x == y && !a.OnParent && !b.OnParent && a.Open == b.Open
			case "samepath":
				good = cx == cy && (x == y || a.OnParent || b.OnParent)
			case "parent-child":
				good = parentOf(cy) == cx && cy != cx
			case "child-parent":
				good = parentOf(cx) == cy && cx != cy
			case "siblings":
				good = cx != cy && parentOf(cx) == parentOf(cy) && cx != "/" && cy != "/"
			case "unrelated":
				good = top(cx) != top(cy)
			case "A-names-B":
				// A's call names (removes) the node B works on
				good = a.Victim != nil && a.Name == "remove" && x == cy && !b.OnParent
			case "B-names-A":
				good = b.Victim != nil && b.Name == "remove" && y == cx && !a.OnParent
			}
			if good {
				return x, y, true
			}
		}
	}
	return "", "", false
}

func describeOp(o *opSpec, p string) string { return fmt.Sprintf("%s(%s)", o.Name, p) }
