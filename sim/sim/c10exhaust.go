package sim

import (
	"fmt"

	"github.com/hugelgupf/p9/p9"
	rc "github.com/hugelgupf/p9/zzverif/refcodec"
	"github.com/hugelgupf/p9/zzverif/simnet"
	"github.com/hugelgupf/p9/zzverif/simrt"
)

// Allocator exhaustion (C10: "never NOTAG or NOFID").  Reaching the end of the
// tag space for real needs 65534 calls in flight on one client, the end of the
// fid space four billion held files.  The verif-tagged seam p9/verif_pool.go
// lets the simulator declare that many values held by absent callers; the
// scenario then issues a few more concurrent calls than there are values left
// and watches the wire.
//
// The numbers come from the protocol, not from the implementation: a tag is 16
// bits with 0xFFFF reserved, a fid 32 bits with 0xFFFFFFFF reserved, and the
// client numbers both from 1.  After `held` values are gone the client has
// `left` legitimate values; which of the surplus calls fail, and with what
// error, is not judged - only that nothing reserved or duplicated is sent,
// that every answered call gets its own reply and that none hangs.
const c10ExhaustKinds = 4

func runC10Exhaust(rcx *RunCtx, kind int) {
	cfg := simCfg(rcx)
	tags := kind%2 == 0
	left := 1 + kind/2*2 // 1 or 3 legitimate values left
	ncallers := left + 3
	if tags {
		rcx.Label = fmt.Sprintf("exhaust tags left=%d", left)
	} else {
		rcx.Label = fmt.Sprintf("exhaust fids left=%d", left)
	}
	cw := &cliWorld{rcx: rcx, prop: "C10"}
	rcx.Res = simrt.Run(cfg, rcx.Sched, func() {
		fake := NewFakeSrv("cli")
		cw.Fake = fake
		fake.Version = versionStr(7)
		fake.maxFrame = 8192
		fake.Net.S2C.Seg = simnet.SegWhole
		done := 0
		isBatch := func(m rc.Message) bool {
			if tags {
				_, ok := m.(*rc.Tgetattr)
				return ok
			}
			_, ok := m.(*rc.Twalk)
			return ok
		}
		hook := func(f *FakeSrv) bool {
			// hold the batch until every caller has either a request in or returned
			count := func() int {
				c := 0
				for _, r := range f.pend {
					if isBatch(r.Msg) {
						c++
					}
				}
				return c
			}
			if c := count(); c > 0 && c+done < ncallers {
				simrt.Block("fakesrv: collect batch", func() bool { return count()+done >= ncallers || f.stop })
				return true
			}
			return false
		}
		simrt.GoNamed("fakesrv", func() { fake.Serve(hook) })
		cl, err := p9.NewClient(fake.Net.A, p9.WithMessageSize(8192))
		if err != nil {
			cw.find("setup", "newclient", "NewClient failed: %v", err)
			fake.Stop()
			return
		}
		cw.Client = cl
		if !tags {
			// fids 1..held are gone; Attach takes one of the rest
			cl.VerifHoldFIDs(uint64(0xFFFFFFFF) - 1 - uint64(left) - 1)
		}
		root, err := cl.Attach("")
		if err != nil {
			cw.find("setup", "attach", "Attach failed: %v", err)
			cw.shutdown()
			return
		}
		cw.hold(root)
		if tags {
			cl.VerifHoldTags(uint64(0xFFFF) - 1 - uint64(left))
		}
		for i := 0; i < ncallers; i++ {
			simrt.GoNamed(fmt.Sprintf("caller%d", i), func() {
				simrt.Current().Role = "caller"
				cw.inCall.Set(simrt.Current(), len(fake.Reqs))
				from := len(fake.Reqs)
				if tags {
					q, v, a, err := root.GetAttr(p9.AttrMaskAll)
					cw.inCall.Del(simrt.Current())
					cw.judge("GetAttr", from, err, func(rep rc.Message) string {
						r, ok := rep.(*rc.Rgetattr)
						if !ok {
							return "reply type " + rc.String(rep)
						}
						return first(diff("QID", q, qidFromRC(r.QID)), diff("valid", v, maskFromRC(r.Valid)), diff("attr", a, attrFromRC(r.Attr)))
					})
				} else {
					_, nf, err := root.Walk(nil)
					cw.inCall.Del(simrt.Current())
					if err == nil {
						cw.hold(nf)
					}
					cw.judge("Walk", from, err, nil)
				}
				done++
			})
		}
		simrt.Block("callers done", func() bool { return done == ncallers })
		simrt.Join()
		for _, r := range fake.Pending() {
			cw.find("request-never-answered", "pending", "request %s still pending although all callers returned and no fault was injected", r.Frame)
		}
		cw.shutdown()
		rcx.Findings = append(rcx.Findings, fake.Findings...)
		rcx.Findings = append(rcx.Findings, fake.Mon.Findings...)
	})
	rcx.Count("client.calls", cw.ncalls)
	rcx.Count("client.calls_failed", cw.nfailed)
	rcx.Count("exhaust.runs", 1)
	if cw.Fake != nil {
		rcx.Count("requests", len(cw.Fake.Reqs))
	}
	rcx.Sample = map[string]interface{}{"exhaust": rcx.Label, "callers": ncallers}
	finishRun(rcx)
	for i := range rcx.Findings {
		f := &rcx.Findings[i]
		if f.Prop == "C16" && (f.Oracle == "deadlock" || f.Oracle == "livelock") {
			f.Prop, f.Oracle, f.Key = "C10", "call-hang", "call-hang:exhaust"
			f.Detail = "a client call never returned (allocator exhausted): " + f.Detail
		}
		if f.Prop == "C16" && f.Oracle == "task-panic" {
			f.Prop = "C10"
		}
	}
}
