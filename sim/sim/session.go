package sim

import (
	"fmt"
	"sort"
	"strings"

	rc "github.com/hugelgupf/p9/zzverif/refcodec"
	"github.com/hugelgupf/p9/zzverif/simfs"
)

// Session model (DESIGN.md appendix C), written from the C04 statement and the
// 9P2000.L description.  It tracks, per connection, what each fid number is
// bound to and its open / xattr state, and for every request says either
// "rejected with one of these errnos and no backend call" or "forwarded".
// What a forwarded request returns is taken from the backend's call log, so
// file-system semantics are not modelled a second time.

const (
	xNone = iota
	xRead
	xWrite
)

type mfid struct {
	// unknown: an operation the statement leaves open succeeded on this fid;
	// its open/xattr state is no longer predicted (bound-ness still is).
	unknown bool
	h       *simfs.Handle
	kind    simfs.Kind
	root    bool
	opened  bool
	mode    uint32
	x       int
	xname   string
	xsize   uint64
	xbuf    []byte
	xflags  uint32
	xval    []byte // xRead: the value
}

func (f *mfid) deleted() bool { return f.h != nil && f.h.Gone() }

type sessModel struct {
	// maybe: fid numbers whose bound-ness is not predicted any more (a
	// backend panic interrupted a request that was to bind or unbind them).
	maybe map[uint32]bool
	fids  map[uint32]*mfid
	// version negotiated (for information only)
	msize uint32
}

func newSessModel() *sessModel { return &sessModel{fids: map[uint32]*mfid{}, maybe: map[uint32]bool{}} }

type verdict struct {
	// reject: the request must be answered Rlerror with one of these codes
	// and must not reach the backend (Close calls excepted).
	reject []uint32
	// forward: the request reaches the backend; the reply reflects the call log.
	forward bool
	// noCall: a success reply without any backend call is (also) acceptable.
	okWithoutCall bool
	// unjudged: the statement leaves this open; only "some reply" is checked.
	unjudged bool
	// onOK / onAny update the model.
	onOK  func(calls []*simfs.Call, rep rc.Message)
	onAny func()
	// direct: expected reply computed by the model itself (xattr sub-protocol)
	direct rc.Message
}

func rej(codes ...uint32) verdict { return verdict{reject: codes} }

func unsafeName(n string) bool {
	return n == "" || n == "." || n == ".." || strings.Contains(n, "/")
}

func lastFile(calls []*simfs.Call) *simfs.Handle {
	for i := len(calls) - 1; i >= 0; i-- {
		if calls[i].RFile != nil && calls[i].Err == nil && calls[i].Method != "Attach" {
			return calls[i].RFile
		}
	}
	for i := len(calls) - 1; i >= 0; i-- {
		if calls[i].RFile != nil && calls[i].Err == nil {
			return calls[i].RFile
		}
	}
	return nil
}

func (s *sessModel) bind(fid uint32, h *simfs.Handle, root bool) {
	f := &mfid{h: h, root: root}
	if h != nil && h.Bound() != nil {
		f.kind = h.Bound().Kind
	}
	s.fids[fid] = f
}

func canOpenKind(k simfs.Kind) bool {
	return k == simfs.Dir || k == simfs.Reg || k == simfs.Fifo || k == simfs.Chr || k == simfs.Blk
}

// judge returns the verdict for one request given the current (pre-request)
// state.  Requests that involve a fid whose state is unknown, and unjudged
// requests that succeed, taint the fids they may have changed.
func (s *sessModel) judge(req rc.Message) verdict {
	v := s.judge1(req)
	fids := fidsOf(req)
	for _, f := range fids {
		if s.maybe[f] {
			// nothing is predicted; keep whatever binding effect a success has
			inner := v.onOK
			return verdict{unjudged: true, onOK: func(calls []*simfs.Call, rep rc.Message) {
				if inner != nil {
					inner(calls, rep)
				}
				for _, f := range fids {
					if m := s.fids[f]; m != nil {
						m.unknown = true
					}
				}
			}}
		}
	}
	tainted := false
	for _, f := range fids {
		if m := s.fids[f]; m != nil && m.unknown {
			tainted = true
		}
	}
	if tainted && len(v.reject) > 0 && inSet(EBADF, v.reject) {
		return v // an unbound fid is still an unbound fid
	}
	if tainted || v.unjudged {
		inner := v.onOK
		v = verdict{unjudged: true, onAny: v.onAny}
		v.onOK = func(calls []*simfs.Call, rep rc.Message) {
			if inner != nil {
				inner(calls, rep)
			}
			for _, f := range fids {
				if m := s.fids[f]; m != nil {
					m.unknown = true
				}
			}
		}
	}
	return v
}

// fidsOf lists the fid numbers a request names (sources and destinations).
func fidsOf(req rc.Message) []uint32 {
	switch m := req.(type) {
	case *rc.Tattach:
		return []uint32{m.Fid}
	case *rc.Twalk:
		return []uint32{m.Fid, m.NewFid}
	case *rc.Twalkgetattr:
		return []uint32{m.Fid, m.NewFid}
	case *rc.Tlopen:
		return []uint32{m.Fid}
	case *rc.Tlcreate:
		return []uint32{m.Fid}
	case *rc.Tucreate:
		return []uint32{m.Fid}
	case *rc.Tmkdir:
		return []uint32{m.Dfid}
	case *rc.Tumkdir:
		return []uint32{m.Dfid}
	case *rc.Tsymlink:
		return []uint32{m.Dfid}
	case *rc.Tusymlink:
		return []uint32{m.Dfid}
	case *rc.Tmknod:
		return []uint32{m.Dfid}
	case *rc.Tumknod:
		return []uint32{m.Dfid}
	case *rc.Tlink:
		return []uint32{m.Dfid, m.Fid}
	case *rc.Tunlinkat:
		return []uint32{m.DirFid}
	case *rc.Trenameat:
		return []uint32{m.OldDirFid, m.NewDirFid}
	case *rc.Trename:
		return []uint32{m.Fid, m.Dfid}
	case *rc.Tremove:
		return []uint32{m.Fid}
	case *rc.Tclunk:
		return []uint32{m.Fid}
	case *rc.Tread:
		return []uint32{m.Fid}
	case *rc.Twrite:
		return []uint32{m.Fid}
	case *rc.Treaddir:
		return []uint32{m.Fid}
	case *rc.Tfsync:
		return []uint32{m.Fid}
	case *rc.Treadlink:
		return []uint32{m.Fid}
	case *rc.Tsetattr:
		return []uint32{m.Fid}
	case *rc.Tgetattr:
		return []uint32{m.Fid}
	case *rc.Tstatfs:
		return []uint32{m.Fid}
	case *rc.Tlock:
		return []uint32{m.Fid}
	case *rc.Txattrwalk:
		return []uint32{m.Fid, m.NewFid}
	case *rc.Txattrcreate:
		return []uint32{m.Fid}
	}
	return nil
}

func (s *sessModel) judge1(req rc.Message) verdict {
	get := func(fid uint32) *mfid { return s.fids[fid] }
	dirGuards := func(d *mfid, name string) *verdict {
		if d == nil {
			if unsafeName(name) {
				v := rej(EBADF, EINVAL)
				return &v
			}
			v := rej(EBADF)
			return &v
		}
		if unsafeName(name) {
			v := rej(EINVAL)
			return &v
		}
		if d.x != xNone {
			return &verdict{unjudged: true}
		}
		if d.deleted() || d.kind != simfs.Dir {
			v := rej(EINVAL)
			return &v
		}
		if d.opened {
			v := rej(EINVAL, EBUSY)
			return &v
		}
		return nil
	}
	switch m := req.(type) {
	case *rc.Tversion:
		return verdict{unjudged: true}
	case *rc.Tauth:
		return rej(ENOSYS)
	case *rc.Tflush:
		return verdict{direct: &rc.Rflush{}}
	case *rc.Tattach:
		if m.Afid != rc.NoFid {
			return rej(EINVAL)
		}
		aname := m.Aname
		if strings.HasPrefix(aname, "/") {
			aname = aname[1:]
		}
		if aname != "" {
			for _, n := range strings.Split(aname, "/") {
				if unsafeName(n) {
					// the root is attached (and released) before names are looked at
					return verdict{reject: []uint32{EINVAL}, forward: true}
				}
			}
		}
		return verdict{forward: true, onOK: func(calls []*simfs.Call, rep rc.Message) {
			s.bind(m.Fid, lastFile(calls), aname == "")
		}}
	case *rc.Twalk, *rc.Twalkgetattr:
		var fid, newfid uint32
		var names []string
		if w, ok := m.(*rc.Twalk); ok {
			fid, newfid, names = w.Fid, w.NewFid, w.Names
		} else {
			w := m.(*rc.Twalkgetattr)
			fid, newfid, names = w.Fid, w.NewFid, w.Names
		}
		anyUnsafe := false
		for _, n := range names {
			if unsafeName(n) {
				anyUnsafe = true
			}
		}
		f := get(fid)
		if f == nil {
			if anyUnsafe {
				return rej(EBADF, EINVAL)
			}
			return rej(EBADF)
		}
		if f.x != xNone {
			return verdict{unjudged: true, onOK: func(calls []*simfs.Call, rep rc.Message) {
				if h := lastFile(calls); h != nil {
					s.bind(newfid, h, false)
				}
			}}
		}
		if f.opened && fid == newfid {
			if anyUnsafe {
				return rej(EBUSY, EINVAL)
			}
			return rej(EBUSY)
		}
		if anyUnsafe {
			return rej(EINVAL)
		}
		if len(names) > 0 {
			if f.kind != simfs.Dir {
				if f.deleted() {
					return rej(EINVAL, ENOENT)
				}
				return rej(EINVAL)
			}
			if f.deleted() {
				return rej(ENOENT)
			}
		}
		root := f.root && len(names) == 0
		srcKind := f.kind
		return verdict{forward: true, onOK: func(calls []*simfs.Call, rep rc.Message) {
			s.bind(newfid, lastFile(calls), root)
			if len(names) == 0 {
				// a clone denotes what its source denotes (a path-based
				// backend may resolve a fenced source to a newer object)
				s.fids[newfid].kind = srcKind
			}
		}}
	case *rc.Tlopen:
		f := get(m.Fid)
		if f == nil {
			return rej(EBADF)
		}
		if f.x != xNone {
			return verdict{unjudged: true}
		}
		if f.deleted() || f.opened || !canOpenKind(f.kind) {
			if f.kind == simfs.Dir && m.Flags&3 != 0 {
				return rej(EINVAL, EISDIR)
			}
			return rej(EINVAL)
		}
		if f.kind == simfs.Dir && m.Flags&3 != 0 {
			return rej(EISDIR)
		}
		return verdict{forward: true, onOK: func([]*simfs.Call, rc.Message) { f.opened, f.mode = true, m.Flags&3 }}
	case *rc.Tlcreate, *rc.Tucreate:
		var t *rc.Tlcreate
		if c, ok := m.(*rc.Tlcreate); ok {
			t = c
		} else {
			t = &m.(*rc.Tucreate).Tlcreate
		}
		rebind := func(calls []*simfs.Call, rep rc.Message) {
			s.bind(t.Fid, lastFile(calls), false)
			f := s.fids[t.Fid]
			f.kind, f.opened, f.mode = simfs.Reg, true, t.Flags&3
		}
		if v := dirGuards(get(t.Fid), t.Name); v != nil {
			if v.unjudged {
				v.onOK = rebind
			}
			return *v
		}
		return verdict{forward: true, onOK: func(calls []*simfs.Call, rep rc.Message) {
			s.bind(t.Fid, lastFile(calls), false)
			f := s.fids[t.Fid]
			f.kind, f.opened, f.mode = simfs.Reg, true, t.Flags&3
		}}
	case *rc.Tmkdir:
		if v := dirGuards(get(m.Dfid), m.Name); v != nil {
			return *v
		}
		return verdict{forward: true}
	case *rc.Tumkdir:
		if v := dirGuards(get(m.Dfid), m.Name); v != nil {
			return *v
		}
		return verdict{forward: true}
	case *rc.Tsymlink:
		if v := dirGuards(get(m.Dfid), m.Name); v != nil {
			return *v
		}
		return verdict{forward: true}
	case *rc.Tusymlink:
		if v := dirGuards(get(m.Dfid), m.Name); v != nil {
			return *v
		}
		return verdict{forward: true}
	case *rc.Tmknod:
		if v := dirGuards(get(m.Dfid), m.Name); v != nil {
			return *v
		}
		return verdict{forward: true}
	case *rc.Tumknod:
		if v := dirGuards(get(m.Dfid), m.Name); v != nil {
			return *v
		}
		return verdict{forward: true}
	case *rc.Tlink:
		d, t := get(m.Dfid), get(m.Fid)
		if d == nil || t == nil {
			if unsafeName(m.Name) {
				return rej(EBADF, EINVAL)
			}
			return rej(EBADF)
		}
		if v := dirGuards(d, m.Name); v != nil {
			return *v
		}
		if t.x != xNone {
			return verdict{unjudged: true}
		}
		return verdict{forward: true}
	case *rc.Tunlinkat:
		if v := dirGuards(get(m.DirFid), m.Name); v != nil {
			return *v
		}
		return verdict{forward: true}
	case *rc.Trenameat:
		od, nd := get(m.OldDirFid), get(m.NewDirFid)
		bad := unsafeName(m.OldName) || unsafeName(m.NewName)
		if od == nil || nd == nil {
			if bad {
				return rej(EBADF, EINVAL)
			}
			return rej(EBADF)
		}
		if bad {
			return rej(EINVAL)
		}
		if od.x != xNone || nd.x != xNone {
			return verdict{unjudged: true}
		}
		if od.deleted() || od.kind != simfs.Dir || nd.deleted() || nd.kind != simfs.Dir {
			return rej(EINVAL)
		}
		if od.opened {
			return rej(EINVAL, EBUSY)
		}
		v := verdict{forward: true}
		if od.h.Path() == nd.h.Path() && m.OldName == m.NewName {
			v.okWithoutCall = true
		}
		return v
	case *rc.Trename:
		f, d := get(m.Fid), get(m.Dfid)
		if f == nil || d == nil {
			if unsafeName(m.Name) {
				return rej(EBADF, EINVAL)
			}
			return rej(EBADF)
		}
		if unsafeName(m.Name) {
			return rej(EINVAL)
		}
		if f.x != xNone || d.x != xNone {
			return verdict{unjudged: true}
		}
		if f.root || f.h.Parent() == nil || f.deleted() || d.deleted() || d.kind != simfs.Dir {
			return rej(EINVAL)
		}
		v := verdict{forward: true}
		if f.h.Parent().Path() == d.h.Path() && f.h.Name() == m.Name {
			v.okWithoutCall = true
		}
		return v
	case *rc.Tremove:
		f := get(m.Fid)
		if f == nil {
			return rej(EBADF)
		}
		unbind := func() { delete(s.fids, m.Fid) }
		if f.x != xNone {
			return verdict{unjudged: true, onAny: unbind}
		}
		if f.root || f.h.Parent() == nil || f.deleted() {
			v := rej(EINVAL)
			v.onAny = unbind
			return v
		}
		return verdict{forward: true, onAny: unbind}
	case *rc.Tclunk:
		f := get(m.Fid)
		if f == nil {
			return rej(EBADF)
		}
		unbind := func() { delete(s.fids, m.Fid) }
		if f.x == xWrite {
			if uint64(len(f.xbuf)) != f.xsize {
				v := rej(EINVAL)
				v.onAny = unbind
				return v
			}
			if f.deleted() {
				return verdict{unjudged: true, onAny: unbind}
			}
			return verdict{forward: true, onAny: unbind}
		}
		return verdict{direct: &rc.Rclunk{}, onAny: unbind}
	case *rc.Tread:
		f := get(m.Fid)
		if f == nil {
			return rej(EBADF)
		}
		if m.Count > 4<<20 || s.msize == 0 {
			// beyond any msize, or before negotiation (no read buffer yet): any error
			return verdict{unjudged: true}
		}
		switch f.x {
		case xRead:
			if m.Count == 0 {
				if f.xsize == 0 {
					return verdict{direct: &rc.Rread{}}
				}
				return verdict{unjudged: true}
			}
			if m.Offset+uint64(m.Count) > uint64(len(f.xval)) || m.Count > 4096 {
				// outside the value: EINVAL or a shortened read are both sensible
				return verdict{unjudged: true}
			}
			return verdict{direct: &rc.Rread{Data: append([]byte{}, f.xval[m.Offset:m.Offset+uint64(m.Count)]...)}}
		case xWrite:
			return rej(EINVAL)
		}
		if s.msize == 0 || m.Count > s.msize-24 {
			// before negotiation there is no read buffer; over-long counts are
			// C13's business: any answer
			return verdict{unjudged: true}
		}
		if !f.opened {
			return rej(EINVAL)
		}
		if f.mode == 1 {
			return rej(EPERM)
		}
		if f.mode == 3 {
			return verdict{unjudged: true}
		}
		return verdict{forward: true}
	case *rc.Twrite:
		f := get(m.Fid)
		if f == nil {
			return rej(EBADF)
		}
		switch f.x {
		case xWrite:
			if uint64(len(f.xbuf)) != m.Offset || m.Offset+uint64(len(m.Data)) > f.xsize {
				return rej(EINVAL)
			}
			return verdict{direct: &rc.Rwrite{Count: uint32(len(m.Data))}, onOK: func([]*simfs.Call, rc.Message) {
				f.xbuf = append(f.xbuf, m.Data...)
			}}
		case xRead:
			return rej(EINVAL)
		}
		if !f.opened {
			return rej(EINVAL)
		}
		if f.mode == 0 {
			return rej(EPERM)
		}
		if f.mode == 3 {
			return verdict{unjudged: true}
		}
		return verdict{forward: true}
	case *rc.Treaddir:
		f := get(m.Fid)
		if f == nil {
			return rej(EBADF)
		}
		if f.x != xNone {
			return verdict{unjudged: true}
		}
		if f.deleted() || f.kind != simfs.Dir || !f.opened {
			return rej(EINVAL)
		}
		if s.msize > 0 && m.Count > s.msize-24 {
			return verdict{unjudged: true}
		}
		return verdict{forward: true}
	case *rc.Tfsync:
		f := get(m.Fid)
		if f == nil {
			return rej(EBADF)
		}
		if f.x != xNone {
			return verdict{unjudged: true}
		}
		if !f.opened {
			return rej(EINVAL)
		}
		return verdict{forward: true}
	case *rc.Treadlink:
		f := get(m.Fid)
		if f == nil {
			return rej(EBADF)
		}
		if f.x != xNone {
			return verdict{unjudged: true}
		}
		if f.deleted() || f.kind != simfs.Symlink {
			return rej(EINVAL)
		}
		return verdict{forward: true}
	case *rc.Tsetattr:
		f := get(m.Fid)
		if f == nil {
			return rej(EBADF)
		}
		if f.x != xNone {
			return verdict{unjudged: true}
		}
		if f.deleted() {
			return rej(EINVAL)
		}
		return verdict{forward: true}
	case *rc.Txattrwalk:
		f := get(m.Fid)
		if f == nil {
			return rej(EBADF)
		}
		if f.x != xNone {
			return verdict{unjudged: true, onOK: func(calls []*simfs.Call, rep rc.Message) {
				s.bind(m.NewFid, lastFile(calls), false)
				s.fids[m.NewFid].x = xRead
			}}
		}
		if f.deleted() {
			return rej(EINVAL)
		}
		return verdict{forward: true, onOK: func(calls []*simfs.Call, rep rc.Message) {
			nf := &mfid{h: lastFile(calls), kind: f.kind, x: xRead, xname: m.Name}
			for _, c := range calls {
				switch c.Method {
				case "GetXattr":
					nf.xval = c.RData
				case "ListXattrs":
					nf.xval = []byte(strings.Join(c.RStrs, "\x00") + "\x00")
				}
			}
			nf.xsize = uint64(len(nf.xval))
			s.fids[m.NewFid] = nf
		}}
	case *rc.Txattrcreate:
		f := get(m.Fid)
		if f == nil {
			return rej(EBADF)
		}
		if f.x != xNone {
			return verdict{unjudged: true}
		}
		if f.deleted() {
			return rej(EINVAL)
		}
		return verdict{direct: &rc.Rxattrcreate{}, onOK: func([]*simfs.Call, rc.Message) {
			f.x, f.xname, f.xsize, f.xflags, f.xbuf = xWrite, m.Name, m.AttrSize, m.Flags, nil
		}}
	case *rc.Tgetattr:
		f := get(m.Fid)
		if f == nil {
			return rej(EBADF)
		}
		if f.x != xNone {
			return verdict{unjudged: true}
		}
		return verdict{forward: true}
	case *rc.Tstatfs:
		f := get(m.Fid)
		if f == nil {
			return rej(EBADF)
		}
		if f.x != xNone {
			return verdict{unjudged: true}
		}
		return verdict{forward: true}
	case *rc.Tlock:
		f := get(m.Fid)
		if f == nil {
			return rej(EBADF)
		}
		if f.x != xNone {
			return verdict{unjudged: true}
		}
		return verdict{forward: true}
	}
	// R-types and anything else a client should not send
	return rej(ENOSYS)
}

func (s *sessModel) boundFids() []uint32 {
	var out []uint32
	for f := range s.fids {
		out = append(out, f)
	}
	sort.Slice(out, func(i, j int) bool { return out[i] < out[j] })
	return out
}

func inSet(code uint32, set []uint32) bool {
	for _, c := range set {
		if c == code {
			return true
		}
	}
	return false
}

// checkStep compares the server's reply and the backend calls made for one
// request with the verdict and updates the model.
func (s *sessModel) checkStep(find func(oracle, key, format string, args ...interface{}), v verdict, req, rep rc.Message, calls []*simfs.Call) {
	name := rc.TypeName(req.MsgType())
	ecode := Errno(rep)
	_, isErr := rep.(*rc.Rlerror)
	var real []*simfs.Call // calls other than releases
	for _, c := range calls {
		if c.Method != "Close" {
			real = append(real, c)
		}
	}
	defer func() {
		if v.onAny != nil {
			v.onAny()
		}
	}()
	if rv, ok := rep.(*rc.Rversion); ok && rv.Msize > 0 {
		s.msize = rv.Msize
	}
	// did the backend panic?  Only containment is promised: EFAULT, and no
	// prediction about the fids involved afterwards.
	for _, c := range real {
		if c.Panicked {
			if !isErr || ecode != EFAULT {
				find("wrong-reply", name+"/panic", "%s: backend panicked in %s, reply must be Rlerror(EFAULT), got %s", rc.String(req), c, rc.String(rep))
			}
			for _, f := range fidsOf(req) {
				s.maybe[f] = true
			}
			v.onAny = nil
			return
		}
	}
	switch {
	case v.unjudged:
		if !isErr && v.onOK != nil {
			v.onOK(calls, rep)
		}
		return
	case len(v.reject) > 0 && !v.forward:
		if !isErr || !inSet(ecode, v.reject) {
			find("wrong-reply", name+"/reject", "%s must be rejected with errno %v, got %s (model fids %v)", rc.String(req), v.reject, rc.String(rep), s.boundFids())
		}
		if len(real) > 0 {
			find("backend-reached", name, "%s must be rejected without reaching the backend, but it called %s", rc.String(req), real[0])
		}
		return
	case len(v.reject) > 0 && v.forward:
		// attach with an unsafe name: rejected, Attach/GetAttr/Close permitted
		// (if one of those fails, its errno is as good an answer)
		for _, c := range real {
			if c.Err != nil && isErr && ecode == errnoOf(c.Err) {
				return
			}
		}
		if !isErr || !inSet(ecode, v.reject) {
			find("wrong-reply", name+"/reject", "%s must be rejected with errno %v, got %s", rc.String(req), v.reject, rc.String(rep))
		}
		for _, c := range real {
			if c.Method != "Attach" && c.Method != "GetAttr" {
				find("backend-reached", name, "%s must be rejected, but it called %s", rc.String(req), c)
			}
		}
		return
	case v.direct != nil:
		if !rc.Equal(rep, v.direct) {
			st := ""
			for _, f := range fidsOf(req) {
				if m := s.fids[f]; m != nil {
					st += fmt.Sprintf(" fid%d{x:%d xsize:%d xval:%q unknown:%v opened:%v}", f, m.x, m.xsize, m.xval, m.unknown, m.opened)
				}
			}
			find("wrong-reply", name+"/direct", "%s: expected %s, got %s (model:%s)", rc.String(req), rc.String(v.direct), rc.String(rep), st)
			return
		}
		if len(real) > 0 {
			find("backend-reached", name, "%s is answered by the server itself, but it called %s", rc.String(req), real[0])
		}
		if v.onOK != nil {
			v.onOK(calls, rep)
		}
		return
	}
	// forwarded
	if len(real) == 0 {
		if v.okWithoutCall && !isErr {
			return
		}
		find("not-forwarded", name, "%s is valid in the model state (fids %v) but made no backend call; reply %s", rc.String(req), s.boundFids(), rc.String(rep))
		return
	}
	// did the backend fail?
	var berr error
	for _, c := range real {
		if c.Err != nil && !isEOF(c.Err) {
			berr = c.Err
		}
	}
	// a multi-component walk stopped by the server at a non-directory
	if berr == nil && isErr {
		switch req.(type) {
		case *rc.Twalk, *rc.Twalkgetattr, *rc.Tattach:
			if ecode == EINVAL && walkHitNonDir(req, real) {
				return
			}
		}
		find("wrong-reply", name+"/spurious-error", "%s: every backend call succeeded (%s) but the reply is %s", rc.String(req), real[len(real)-1], rc.String(rep))
		return
	}
	if berr != nil {
		want := errnoOf(berr)
		if !isErr || ecode != want {
			find("wrong-reply", name+"/backend-error", "%s: backend failed with %v, reply must be Rlerror(%d), got %s", rc.String(req), berr, want, rc.String(rep))
		}
		return
	}
	if exp, ok := expectedReply(req, real); ok {
		if !rc.Equal(exp, rep) {
			find("wrong-reply", name+"/content", "%s: reply %s does not carry what the backend returned; expected %s", rc.String(req), rc.String(rep), rc.String(exp))
			return
		}
	} else if rep.MsgType() != rc.ReplyType(req.MsgType()) {
		find("wrong-reply", name+"/type", "%s answered by %s", rc.String(req), rc.String(rep))
		return
	}
	if v.onOK != nil {
		v.onOK(calls, rep)
	}
}

// walkHitNonDir: the walk has names left after reaching a non-directory.
func walkHitNonDir(req rc.Message, calls []*simfs.Call) bool {
	var names []string
	switch m := req.(type) {
	case *rc.Twalk:
		names = m.Names
	case *rc.Twalkgetattr:
		names = m.Names
	case *rc.Tattach:
		a := strings.TrimPrefix(m.Aname, "/")
		names = strings.Split(a, "/")
	}
	steps := 0
	var lastH *simfs.Handle
	for _, c := range calls {
		if (c.Method == "Walk" || c.Method == "WalkGetAttr") && len(c.Names) > 0 && c.Err == nil {
			steps++
			lastH = c.RFile
		}
	}
	return steps < len(names) && lastH != nil && lastH.Bound() != nil && lastH.Bound().Kind != simfs.Dir
}

var _ = fmt.Sprint
