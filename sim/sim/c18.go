package sim

import (
	"fmt"
	"strings"

	rc "github.com/hugelgupf/p9/zzverif/refcodec"
	"github.com/hugelgupf/p9/zzverif/simfs"
	"github.com/hugelgupf/p9/zzverif/simrt"
)

// C18 — no carry-over between messages through recycled objects and buffers.
//
// Trains of same-type messages with shrinking and growing shapes (name lists
// 16 -> 1 -> 0, payloads 4096 -> 1 -> 0, strings long -> empty, reads long ->
// short -> empty, listings many -> none) are sent on one connection and
// interleaved over several connections of one server process: p9's message
// cache and buffer pools are process-wide, so the second connection inherits
// what the first left.  Caches and pools start empty in every run and the tape
// forces pool hits and misses.  Oracle: the arguments the backend receives
// (deep-copied at the call) equal the request's own fields; every reply is
// what the session model and the call log prescribe (Rread data = exactly the
// bytes the backend produced).

func c18Train(ch func(int) int, kind int, i int) rc.Message {
	shapes := []int{16, 9, 1, 0, 3, 0, 16, 2, 0}
	sz := shapes[(i+ch(3))%len(shapes)]
	switch kind {
	case 0: // Twalk name lists (most fail: the point is what the backend is asked)
		var names []string
		for k := 0; k < sz; k++ {
			names = append(names, []string{"a", "d", "b", "zz", strings.Repeat("n", 1+ch(30))}[ch(5)])
		}
		if ch(3) == 0 {
			return &rc.Twalkgetattr{Fid: 0, NewFid: uint32(50 + i%4), Names: names}
		}
		return &rc.Twalk{Fid: 0, NewFid: uint32(50 + i%4), Names: names}
	case 1: // Twrite payload sizes
		n := []int{4096, 1, 0, 300, 2, 0, 4096, 7}[(i+ch(2))%8]
		d := make([]byte, n)
		for k := range d {
			d[k] = byte(0x40 + (i+k)%50)
		}
		return &rc.Twrite{Fid: 1, Offset: uint64(ch(3)), Data: d}
	case 2: // Tread: long -> short -> empty
		return &rc.Tread{Fid: 1, Offset: uint64([]int{0, 5, 4000, 0, 99999}[ch(5)]), Count: uint32([]int{4000, 3, 0, 100, 1}[(i+ch(2))%5])}
	case 3: // Treaddir: many -> none
		return &rc.Treaddir{Fid: 2, Offset: uint64([]int{0, 2, 100, 0}[ch(4)]), Count: uint32([]int{4000, 60, 24, 0, 300}[(i+ch(2))%5])}
	case 4: // strings long -> empty
		t := strings.Repeat("T", sz*20)
		return &rc.Tsymlink{Dfid: 0, Name: fmt.Sprintf("s%d_%d", i, ch(1000)), Target: t}
	case 5:
		return &rc.Tmkdir{Dfid: 0, Name: strings.Repeat("k", 1+sz*10) + fmt.Sprint(i), Mode: uint32(ch(0o10000))}
	case 6: // setattr with changing masks
		return &rc.Tsetattr{Fid: 1, Valid: uint32(ch(1 << 9)), Mode: uint32(ch(0o10000)), UID: uint32(ch(5)), GID: uint32(ch(5)), Size: uint64(ch(6000)), ATimeSec: uint64(ch(9)), MTimeSec: uint64(ch(9))}
	case 7:
		return &rc.Txattrwalk{Fid: 1, NewFid: uint32(60 + i%3), Name: []string{"user.x", "", "user.longer-name", "user.none"}[ch(4)]}
	case 8:
		return &rc.Tlock{Fid: 1, Type: uint8(ch(3)), Flags: uint32(ch(3)), Start: uint64(ch(100)), Length: uint64(ch(100)), ProcID: uint32(ch(1000)), ClientID: strings.Repeat("c", sz)}
	case 9:
		return &rc.Trenameat{OldDirFid: 0, OldName: strings.Repeat("o", 1+sz), NewDirFid: 0, NewName: strings.Repeat("w", 1+shapes[(i+1)%len(shapes)])}
	}
	return &rc.Tgetattr{Fid: 1, Mask: uint64(ch(1 << 14))}
}

func runC18(rcx *RunCtx) {
	if rcx.Index%4 == 3 {
		runC18Client(rcx)
		return
	}
	cfg := simCfg(rcx)
	cfg.PoolMissPct = []int{0, 20, 50, 90}[rcx.Plan.Choose(4)]
	p := rcx.Plan
	nconn := 1 + p.Choose(3)
	kinds := []int{p.Choose(11)}
	if p.Choose(2) == 0 {
		kinds = append(kinds, p.Choose(11))
	}
	n := 6 + p.Choose(30)
	wga := p.Choose(2) == 1
	rcx.Label = fmt.Sprintf("server kinds=%v conns=%d", kinds, nconn)
	pipelined := rcx.Index%4 == 2
	useSock := false
	if pipelined {
		useSock = p.Choose(2) == 1
		if useSock && nconn < 2 {
			nconn = 2
		}
		rcx.Label = fmt.Sprintf("server pipelined conns=%d sock=%v", nconn, useSock)
	}
	var trace []string
	rcx.Res = simrt.Run(cfg, rcx.Sched, func() {
		fs := simfs.New()
		fs.WalkGetAttrENOSYS = wga
		c04Tree(fs)
		big := fs.MkPath("/big")
		big.Data = make([]byte, 6000)
		for i := range big.Data {
			big.Data[i] = byte('a' + i%26)
		}
		fs.MkPath("/wfile")
		big.SetXattrDirect("user.x", []byte("xattr-value"))
		big.SetXattrDirect("user.longer-name", []byte(strings.Repeat("v", 300)))
		w := NewWorld(nil, fs)
		find := func(oracle, key, format string, args ...interface{}) {
			rcx.Find("C18", oracle, key, format, args...)
		}
		type cm struct {
			c *SrvConn
			m *sessModel
		}
		var conns []cm
		for i := 0; i < nconn; i++ {
			if useSock {
				// real socket pairs: the server receives through vecnet's
				// recvmsg path, whose buffers and vectors are shared too
				conns = append(conns, cm{w.ConnectSock(), newSessModel()})
			} else {
				conns = append(conns, cm{w.Connect(), newSessModel()})
			}
		}
		step := func(x cm, m rc.Message) {
			mark := len(fs.Calls)
			tag := x.c.Tag()
			if _, ok := m.(*rc.Tversion); ok {
				tag = rc.NoTag
			}
			v := x.m.judge(m)
			req := x.c.Send(tag, m)
			simrt.WaitQuiescent()
			if req == nil || req.Reply == nil {
				find("no-reply", rc.TypeName(m.MsgType()), "%s not answered", rc.String(m))
				return
			}
			calls := fs.Calls[mark:]
			if len(trace) < 14 {
				trace = append(trace, fmt.Sprintf("c%d %s -> %s", x.c.ID, trunc(rc.String(m), 90), trunc(rc.String(req.Reply.Msg), 70)))
			}
			if d := checkRequestArgs(m, calls); d != "" {
				find("backend-args-differ", rc.TypeName(m.MsgType()), "the backend did not receive the request's own fields: %s (history: %v)", d, trace)
			}
			x.m.checkStep(find, v, m, req.Reply.Msg, calls)
		}
		for _, x := range conns {
			step(x, &rc.Tversion{Msize: 8192, Version: "9P2000.L.Google.7"})
			step(x, &rc.Tattach{Fid: 0, Afid: rc.NoFid, Uname: "u", Aname: "", NUname: rc.NoUID})
			step(x, &rc.Twalk{Fid: 0, NewFid: 1, Names: []string{"big"}})
			step(x, &rc.Tlopen{Fid: 1, Flags: 2})
			step(x, &rc.Twalk{Fid: 0, NewFid: 2})
			step(x, &rc.Tlopen{Fid: 2, Flags: 0})
		}
		if pipelined {
			// Several requests in flight together: buffers and message
			// objects are recycled while other requests are still being
			// handled or answered.  The requests of a batch work on fixed
			// content through their own fids, so each has one right answer
			// whatever the order: judged against the calls the backend
			// received on its behalf.
			for _, x := range conns {
				step(x, &rc.Twalk{Fid: 0, NewFid: 3, Names: []string{"wfile"}})
				step(x, &rc.Tlopen{Fid: 3, Flags: 2})
				step(x, &rc.Twalk{Fid: 0, NewFid: 4, Names: []string{"big"}})
				step(x, &rc.Tlopen{Fid: 4, Flags: 0})
			}
			for round := 0; round < 2+n/6 && len(rcx.Findings) == 0; round++ {
				type sent struct {
					m   rc.Message
					req *FrameRec
				}
				var batch []sent
				for k := 2 + simrt.Choose(4); k > 0; k-- {
					x := conns[simrt.Choose(len(conns))]
					var m rc.Message
					switch simrt.Choose(6) {
					case 0, 1:
						m = &rc.Tread{Fid: []uint32{1, 4}[simrt.Choose(2)], Offset: uint64([]int{0, 26, 4000, 5990}[simrt.Choose(4)]), Count: uint32([]int{4000, 3, 700, 100, 1}[simrt.Choose(5)])}
					case 2:
						d := make([]byte, []int{1, 300, 4000}[simrt.Choose(3)])
						for i := range d {
							d[i] = byte(0x30 + (round+i+k)%70)
						}
						m = &rc.Twrite{Fid: 3, Offset: uint64(simrt.Choose(3)), Data: d}
					case 3:
						m = &rc.Treaddir{Fid: 2, Offset: 0, Count: uint32([]int{4000, 60, 300}[simrt.Choose(3)])}
					case 4:
						m = &rc.Tgetattr{Fid: 1, Mask: rc.GetattrAll}
					case 5:
						m = &rc.Twalk{Fid: 0, NewFid: uint32(70 + k), Names: [][]string{{"a", "b"}, {"big"}, {"nope", "x"}, {}}[simrt.Choose(4)]}
					}
					batch = append(batch, sent{m, x.c.Send(x.c.Tag(), m)})
				}
				simrt.WaitQuiescent()
				rcx.Count("pipelined.requests", len(batch))
				for _, b := range batch {
					if b.req == nil || b.req.Reply == nil {
						find("no-reply", rc.TypeName(b.m.MsgType()), "%s not answered", rc.String(b.m))
						continue
					}
					var calls []*simfs.Call
					for _, cl := range fs.Calls {
						if cl.Req == b.req && cl.Method != "Close" {
							calls = append(calls, cl)
						}
					}
					if d := checkRequestArgs(b.m, calls); d != "" {
						find("backend-args-differ", rc.TypeName(b.m.MsgType()), "pipelined: the backend did not receive the request's own fields: %s", d)
					}
					if _, isErr := b.req.Reply.Msg.(*rc.Rlerror); isErr {
						continue
					}
					if exp, ok := expectedReply(b.m, calls); ok && !rc.Equal(exp, b.req.Reply.Msg) {
						find("reply-differs-from-backend", rc.TypeName(b.m.MsgType()), "pipelined with %d other requests: %s answered %s, but the backend produced %s for it", len(batch)-1, trunc(rc.String(b.m), 80), trunc(rc.String(b.req.Reply.Msg), 120), trunc(rc.String(exp), 120))
					}
				}
			}
		}
		for i := 0; i < n && len(rcx.Findings) == 0 && !pipelined; i++ {
			x := conns[simrt.Choose(len(conns))]
			m := c18Train(simrt.Choose, kinds[i%len(kinds)], i)
			if body := rc.EncodeBody(m); simrt.Choose(6) == 0 && len(body) > 2 {
				// the same message cut short (size field consistent): whatever
				// an earlier, longer message left in a recycled buffer must
				// not complete it
				cut := 1 + simrt.Choose(len(body)-1)
				mark := len(fs.Calls)
				req := x.c.Send(x.c.Tag(), &rc.Opaque{Type: m.MsgType(), Body: body[:cut]})
				simrt.WaitQuiescent()
				rcx.Count("short_frames", 1)
				simrt.Fault("peer.frame-cut-short")
				if req == nil || req.Reply == nil {
					find("no-reply", "short-frame", "a %s frame cut to %d of %d body bytes was not answered", rc.TypeName(m.MsgType()), cut, len(body))
					continue
				}
				if _, isWrite := m.(*rc.Twrite); isWrite && cut >= 16 {
					continue // a shorter payload with a larger count: acceptance is the decoder's business (C02)
				}
				for _, cl := range fs.Calls[mark:] {
					if cl.Method != "Close" {
						find("short-frame-completed", rc.TypeName(m.MsgType()), "a %s frame cut to %d of %d body bytes reached the backend as %s: the missing bytes came from somewhere else", rc.TypeName(m.MsgType()), cut, len(body), cl)
						break
					}
				}
				continue
			}
			step(x, m)
		}
		w.Shutdown()
		rcx.Findings = append(rcx.Findings, w.Findings...)
		for _, x := range conns {
			if x.c.Sock != nil {
				x.c.Sock.Close()
			}
		}
	})
	rcx.Sample = map[string]interface{}{"receiver": "server", "message_kinds": kinds, "connections": nconn, "train_length": n, "pool_miss_pct": cfg.PoolMissPct, "history_head": trace}
	finishRun(rcx)
}

func init() {
	Register(&Engine{
		ID:   "C18",
		Desc: "no carry-over between messages through recycled message objects and buffers",
		Run:  runC18,
		Quick: 64000, Thorough: 4000000, QuickSecs: 60, ThorSecs: 1500,
		Rule:  "trains of 6-36 messages of one or two types with shrinking/growing shapes (Twalk/Twalkgetattr name lists 16->9->1->0, Twrite payloads 4096->1->0, Tread/Treaddir counts long->short->0, Tsymlink/Tmkdir/Tlock/Trenameat strings long->empty, Tsetattr/Tgetattr masks, Txattrwalk names) (one in six cut short inside its body, which must not reach the backend) on one connection and interleaved over 1-3 connections of one server process (process-wide message cache and buffer pools, emptied at run start, pool misses forced 0/20/50/90%); a quarter of the runs instead sends (half of them over real socket pairs, i.e. through vecnet's recvmsg path) batches of 2-5 requests (reads of different offsets and lengths through two fids, writes, listings, getattr, walks) that are in flight together, each judged against the calls the backend received on its behalf; client side: reply trains from a fake server through the client's recycled response objects, every result handed to a caller re-read after all later replies. Oracle: backend arguments (deep-copied at the call) equal the request's own fields as encoded by the independent codec; replies are what the C04 model and the call log prescribe (Rread = exactly the bytes the backend produced, Rreaddir = the whole entries that fit).",
		Real:   []string{"p9 message registry cache", "p9 buffer pools", "p9 decode/encode", "p9.Server"},
		Stub:   []string{"transport (simnet pipes)", "backend tree (simfs)", "raw 9P peer / fake server (refcodec)"},
		Owns:   []string{"C04"},
	})
}
