package sim

import (
	"strings"
	"fmt"

	"github.com/hugelgupf/p9/p9"
	rc "github.com/hugelgupf/p9/zzverif/refcodec"
	"github.com/hugelgupf/p9/zzverif/simfs"
	"github.com/hugelgupf/p9/zzverif/simnet"
	"github.com/hugelgupf/p9/zzverif/simrt"
)

// C01 — wire format conformance and lossless round trip.
//
// The statement has no schedule or fault in it: this is an input property and
// the simulator is the vehicle (it owns every byte between the parties); the
// deciding step is seeded, boundary-biased value generation against the
// independent codec.  Four one-directional comparisons, so that a mistake
// shared by p9's encoder and decoder cannot cancel:
//
//	(1) fields refcodec encoded into a T-frame  = arguments the backend receives   (raw peer -> real server)
//	(2) values the backend returns              = fields refcodec decodes from the R-frame (real server -> raw peer)
//	(3) client call arguments                   = fields refcodec decodes from the T-frame (real client -> fake server / monitor)
//	(4) fields the fake server encoded          = values the client call returns   (fake server -> real client)
//
// plus the closed loop client <-> server (C03's engine with extreme values),
// and the wire monitor's "every frame parses exactly per the spec table" on
// every connection of every run.

func c01Raw(rcx *RunCtx) {
	cfg := simCfg(rcx)
	p := rcx.Plan
	wga := p.Choose(2) == 1
	ver := 7 - p.Choose(8)
	n := 20 + p.Choose(40)
	// systematic mask coverage: the run index walks through all 2^14 / 2^9 combinations
	maskBase := uint64(rcx.Index*7) % (1 << 14)
	rcx.Label = "raw peer <-> server"
	var trace []string
	rcx.Res = simrt.Run(cfg, rcx.Sched, func() {
		fs := simfs.New()
		fs.WalkGetAttrENOSYS = wga
		c04Tree(fs)
		fs.MkPath("/" + strings.Repeat("w/", 40))
		g := &gen{ch: simrt.Choose, extreme: true}
		var nextDir p9.Dirents // what the next Readdir returns, when the request was sized for it
		// every successful backend result is whatever the generator says
		script := func(c *simfs.Call) {
			switch c.Method {
			case "GetAttr":
				c.RQID, c.RValid, c.RAttr = g.qid(), g.mask(), g.attr()
				c.RValid.Mode = true // walks refuse a file whose type the backend does not report
				c.RAttr.Mode = c.RAttr.Mode&^p9.FileModeMask | fs.Lookup(c.Path).Kind.Mode() // the type bits must stay true or the session derails
			case "StatFS":
				c.RStat = p9.FSStat{Type: g.u32(), BlockSize: g.u32(), Blocks: g.u64(), BlocksFree: g.u64(), BlocksAvailable: g.u64(), Files: g.u64(), FilesFree: g.u64(), FSID: g.u64(), NameLength: g.u32()}
			case "Open", "Create":
				c.RQID, c.RIoUnit = g.qid(), g.u32()
			case "Mkdir", "Symlink", "Mknod":
				c.RQID = g.qid()
			case "Readlink":
				c.RStr = g.text()
				if g.ch(5) == 0 {
					// the longest string a reply can carry, and its neighbour
					c.RStr = string(nbytes(uint64(len(c.Path)), []int{65535, 65534, 65535}[g.ch(3)]))
				}
			case "Lock":
				c.RLock = p9.LockStatus(g.u32())
			case "Readdir":
				ds := nextDir
				nextDir = nil
				if ds == nil {
					for i := g.ch(8); i > 0; i-- {
						ds = append(ds, p9.Dirent{QID: g.qid(), Offset: g.u64(), Type: p9.QIDType(g.u32()), Name: g.name()})
					}
				}
				c.RDir = ds
			}
		}
		w := NewWorld(nil, fs)
		c := w.Connect()
		if !c.Start(1<<17, versionStr(ver)) || !c.WalkTo(0, 1, "/b") || Errno(c.RPC(&rc.Tlopen{Fid: 1, Flags: 2})) != 0 ||
			!c.WalkTo(0, 2, "/a") || Errno(c.RPC(&rc.Tlopen{Fid: 2, Flags: 0})) != 0 || !c.WalkTo(0, 3, "/l") || !c.WalkTo(0, 4, "/a") || !c.WalkTo(0, 5, "/b") {
			rcx.Find("C01", "setup", "setup", "setup failed")
			return
		}
		fs.Script = script
		for i := 0; i < n && len(rcx.Findings) == 0; i++ {
			var m rc.Message
			longWalk := 0
			switch g.ch(22) {
			case 20, 21:
				// name lists of 1..40 elements along a chain of directories
				// that exists: every name must reach the backend and every
				// QID must come back
				longWalk = []int{1, 2, 15, 16, 17, 33, 40}[g.ch(7)]
				names := make([]string, longWalk)
				for k := range names {
					names[k] = "w"
				}
				if g.ch(2) == 0 {
					m = &rc.Twalk{Fid: 0, NewFid: uint32(30 + g.ch(3)), Names: names}
				} else {
					m = &rc.Twalkgetattr{Fid: 0, NewFid: uint32(30 + g.ch(3)), Names: names}
				}
			case 0, 1:
				m = &rc.Tgetattr{Fid: 1, Mask: (maskBase + uint64(i)) % (1 << 14)}
			case 2, 3:
				m = &rc.Tsetattr{Fid: 5, Valid: uint32(maskBase+uint64(i)) % (1 << 9), Mode: g.u32(), UID: g.u32(), GID: g.u32(), Size: uint64(g.ch(3000)), ATimeSec: g.u64(), ATimeNsec: g.u64(), MTimeSec: g.u64(), MTimeNsec: g.u64()}
			case 4:
				m = &rc.Twrite{Fid: 1, Offset: uint64(g.ch(100)), Data: nbytes(uint64(i), []int{0, 1, 255, 256, 4096, 60000}[g.ch(6)])}
			case 5:
				m = &rc.Tread{Fid: 1, Offset: g.u64(), Count: uint32(g.ch(60000))}
			case 6:
				m = &rc.Treaddir{Fid: 2, Offset: g.u64(), Count: uint32(g.ch(60000))}
				if g.ch(2) == 0 {
					// a count aimed at the boundary: exactly the first k
					// entries (24 + len(name) bytes each), one byte less, one more
					sum, k := 0, 1+g.ch(6)
					for i := 0; i < k+g.ch(3); i++ {
						d := p9.Dirent{QID: g.qid(), Offset: g.u64(), Type: p9.QIDType(g.u32()), Name: g.name()}
						nextDir = append(nextDir, d)
						if i < k {
							sum += 24 + len(d.Name)
						}
					}
					if c := sum - 1 + g.ch(3); c > 0 && c < 60000 {
						m = &rc.Treaddir{Fid: 2, Offset: g.u64(), Count: uint32(c)}
					}
				}
			case 7:
				m = &rc.Tmkdir{Dfid: 4, Name: g.name(), Mode: g.u32(), GID: g.u32()}
			case 8:
				m = &rc.Tumkdir{Tmkdir: rc.Tmkdir{Dfid: 4, Name: g.name(), Mode: g.u32(), GID: g.u32()}, UID: g.u32()}
			case 9:
				m = &rc.Tsymlink{Dfid: 4, Name: g.name(), Target: g.text(), GID: g.u32()}
				if g.ch(6) == 0 {
					// the longest strings the format can carry, and their neighbours
					m = &rc.Tsymlink{Dfid: 4, Name: g.name(), Target: string(nbytes(uint64(i), []int{65535, 65534, 32768, 65535}[g.ch(4)])), GID: g.u32()}
				}
			case 10:
				m = &rc.Tusymlink{Tsymlink: rc.Tsymlink{Dfid: 4, Name: g.name(), Target: g.text(), GID: g.u32()}, UID: g.u32()}
			case 11:
				m = &rc.Tmknod{Dfid: 4, Name: g.name(), Mode: g.u32(), Major: g.u32(), Minor: g.u32(), GID: g.u32()}
			case 12:
				m = &rc.Tumknod{Tmknod: rc.Tmknod{Dfid: 4, Name: g.name(), Mode: g.u32(), Major: g.u32(), Minor: g.u32(), GID: g.u32()}, UID: g.u32()}
			case 13:
				m = &rc.Tlink{Dfid: 4, Fid: 5, Name: g.name()}
			case 14:
				m = &rc.Tunlinkat{DirFid: 4, Name: g.name(), Flags: g.u32()}
			case 15:
				m = &rc.Trenameat{OldDirFid: 4, OldName: g.name(), NewDirFid: 4, NewName: g.name()}
			case 16:
				m = &rc.Tlock{Fid: 5, Type: uint8(g.u32()), Flags: g.u32(), Start: g.u64(), Length: g.u64(), ProcID: g.u32(), ClientID: g.name()}
			case 17:
				m = []rc.Message{&rc.Tstatfs{Fid: 5}, &rc.Treadlink{Fid: 3}, &rc.Tfsync{Fid: 1}}[g.ch(3)]
			case 18:
				m = &rc.Txattrwalk{Fid: 5, NewFid: uint32(20 + g.ch(3)), Name: "user." + g.name()}
			case 19:
				// clone, then open / create on the clone with extreme flags
				c.RPC(&rc.Twalk{Fid: 4, NewFid: 9})
				if g.ch(2) == 0 {
					m = &rc.Tlcreate{Fid: 9, Name: g.name(), Flags: g.u32(), Mode: g.u32(), GID: g.u32()}
				} else {
					m = &rc.Tucreate{Tlcreate: rc.Tlcreate{Fid: 9, Name: g.name(), Flags: g.u32(), Mode: g.u32(), GID: g.u32()}, UID: g.u32()}
				}
			}
			if len(rc.Encode(0, m)) > 1<<17 {
				continue
			}
			mark := len(fs.Calls)
			rep := c.RPC(m)
			calls := fs.Calls[mark:]
			if len(trace) < 8 {
				trace = append(trace, trunc(rc.String(m), 100)+" -> "+trunc(rc.String(rep), 80))
			}
			if longWalk > 0 {
				got := 0
				for _, cl := range calls {
					if cl.Method == "Walk" || cl.Method == "WalkGetAttr" {
						got += len(cl.Names)
					}
				}
				nq := -1
				switch r := rep.(type) {
				case *rc.Rwalk:
					nq = len(r.QIDs)
				case *rc.Rwalkgetattr:
					nq = len(r.QIDs)
				}
				if got != longWalk || nq != longWalk {
					rcx.Find("C01", "name-list-not-carried", rc.TypeName(m.MsgType()), "a walk of %d names along existing directories: the backend was asked for %d of them and the reply is %s", longWalk, got, trunc(rc.String(rep), 120))
				}
			}
			// (1) T-direction
			if d := checkRequestArgs(m, calls); d != "" {
				rcx.Find("C01", "request-field-changed", rc.TypeName(m.MsgType()), "%s: %s", trunc(rc.String(m), 200), d)
			}
			// (2) R-direction
			allOK := len(calls) > 0
			for _, cl := range calls {
				if cl.Err != nil && !isEOF(cl.Err) && cl.Method != "Close" {
					allOK = false
				}
			}
			if _, isErr := rep.(*rc.Rlerror); !isErr && allOK {
				if exp, ok := expectedReply(m, calls); ok && !rc.Equal(exp, rep) {
					rcx.Find("C01", "reply-field-changed", rc.TypeName(m.MsgType()), "%s: the backend returned what encodes as %s, the wire carried %s", trunc(rc.String(m), 120), trunc(rc.String(exp), 300), trunc(rc.String(rep), 300))
				}
			}
			rcx.Count("raw.requests", 1)
		}
		fs.Script = nil
		w.Shutdown()
		rcx.Findings = append(rcx.Findings, w.Findings...)
	})
	rcx.Sample = map[string]interface{}{"direction": "raw peer <-> real server", "version": ver, "requests": n, "head": trace}
	finishRun(rcx)
}

func c01Fake(rcx *RunCtx) {
	cfg := simCfg(rcx)
	p := rcx.Plan
	ver := 7 - p.Choose(8)
	nops := 15 + p.Choose(40)
	seg := []int{simnet.SegWhole, simnet.SegRandom}[p.Choose(2)]
	ncallers := 1 + p.Choose(3)
	errPct := []int{0, 0, 30}[p.Choose(3)]
	rcx.Label = "client <-> fake server"
	cw := &cliWorld{rcx: rcx, prop: "C01"}
	rcx.Res = simrt.Run(cfg, rcx.Sched, func() {
		fake := NewFakeSrv("cli")
		cw.Fake = fake
		fake.Version = versionStr(ver)
		fake.Net.S2C.Seg = seg
		fake.ErrPct = errPct
		simrt.GoNamed("fakesrv", func() { fake.Serve(nil) })
		cl, err := p9.NewClient(fake.Net.A, p9.WithMessageSize(1<<16))
		if err != nil {
			cw.find("setup", "newclient", "%v", err)
			fake.Stop()
			return
		}
		cw.Client = cl
		root, err := cl.Attach("")
		if err != nil {
			cw.find("setup", "attach", "%v", err)
			cw.shutdown()
			return
		}
		cw.hold(root)
		// 1-3 callers at once: what a reply carries belongs to its request,
		// also when several replies (and several Rlerrors) are being decoded
		done := 0
		for i := 0; i < ncallers; i++ {
			simrt.GoNamed(fmt.Sprintf("caller%d", i), func() {
				simrt.Current().Role = "caller"
				files := []p9.File{root}
				for k := 0; k < nops/ncallers+1; k++ {
					cw.inCall.Set(simrt.Current(), len(fake.Reqs))
					cw.doOp(simrt.Choose, &files, false)
					cw.inCall.Del(simrt.Current())
				}
				done++
			})
		}
		simrt.Block("callers done", func() bool { return done == ncallers })
		simrt.Join()
		cw.shutdown()
		rcx.Findings = append(rcx.Findings, fake.Findings...)
		rcx.Findings = append(rcx.Findings, fake.Mon.Findings...)
	})
	rcx.Count("fake.calls", cw.ncalls)
	rcx.Sample = map[string]interface{}{"direction": "real client <-> fake server", "version": ver, "calls": nops, "concurrent_callers": ncallers, "server_error_pct": errPct}
	finishRun(rcx)
}

func init() {
	Register(&Engine{
		ID:   "C01",
		Desc: "wire format conformance and lossless round trip (independent codec, four one-directional comparisons)",
		Run: func(rcx *RunCtx) {
			switch rcx.Index % 3 {
			case 0:
				c01Raw(rcx)
			case 1:
				c01Fake(rcx)
			default:
				runC03Like(rcx, "C01", true)
			}
		},
		Quick: 48000, Thorough: 3000000, QuickSecs: 60, ThorSecs: 1500,
		Rule:  fmt.Sprintf("three sub-engines in rotation. (a) raw peer -> real server: requests of 26 T-types encoded by the independent codec with boundary-biased field values (0, 1, 2^k+-1, max, NOFID/NoUID, names of 1/255/4000 bytes with NUL and high bytes, payloads 0/1/255/256/4096/60000 bytes, half of the Treaddir counts aimed at exactly / one below / one above the size of the first k scripted entries), getattr/setattr masks walking through ALL 2^14 / 2^9 combinations as the run index advances; the backend's results are scripted with the same generators; oracle: backend arguments = request fields (modulo 07777 on permission fields), and the R-frame decoded by the independent codec = what the backend returned (Rreaddir cut to the whole entries within count). (b) real client -> fake server: 26 client operations from 1-3 concurrent callers, in a third of the runs 30%% of the requests answered with nonce-derived Rlerrors; oracle: every T-frame parses exactly per the spec table, returned values = the nonce-derived full-range fields the fake server encoded. (c) closed loop real client <-> real server with extreme values (C03's oracle). The wire monitor checks size = frame length, type byte per spec table (%d types) and exact layout on every connection of every run of every engine. Types not reachable through the public API (Rauth; Rflush/Rxattrcreate on the client) are outside.", 65),
		Assume: []string{"the independent codec (refcodec) was written from the 9P2000.L description and the gVisor extension layout; a disagreement is investigated against the spec text, not resolved in p9's favour"},
		Real:   []string{"p9 encode/decode of all message types", "p9.Client", "p9.Server"},
		Stub:   []string{"transport (simnet)", "raw 9P peer and fake server (refcodec)", "backend (simfs, scripted results)"},
		Owns:   []string{"C03", "C04", "C10"},
	})
}
