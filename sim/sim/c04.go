package sim

import (
	"fmt"

	rc "github.com/hugelgupf/p9/zzverif/refcodec"
	"github.com/hugelgupf/p9/zzverif/simfs"
	"github.com/hugelgupf/p9/zzverif/simrt"
)

// C04 — session state machine.  One lock-step raw peer; replies are a
// deterministic function of the history, schedules vary only inside the
// server and must not matter.

func c04Tree(fs *simfs.FS) {
	fs.MkPath("/a/")
	fs.MkPath("/a/b")
	fs.MkPath("/a/d/")
	fs.MkPath("/b")
	fs.MkPath("/l->b")
	fs.MkPath("/|p")
	fs.MkPath("/=s")
	fs.Lookup("/b").SetXattrDirect("user.x", []byte("xval"))
	fs.Lookup("/a").SetXattrDirect("user.x", []byte("dirx"))
}

// Templates of the bounded-exhaustive sweep (3 fids: 0 root, 1, 2).
var c04Alphabet = []func() rc.Message{
	func() rc.Message { return &rc.Twalk{Fid: 0, NewFid: 1, Names: []string{"a"}} },
	func() rc.Message { return &rc.Twalk{Fid: 0, NewFid: 1, Names: []string{"b"}} },
	func() rc.Message { return &rc.Twalk{Fid: 0, NewFid: 1, Names: []string{"l"}} },
	func() rc.Message { return &rc.Twalk{Fid: 0, NewFid: 1, Names: []string{"p"}} },
	func() rc.Message { return &rc.Twalk{Fid: 0, NewFid: 1, Names: []string{"s"}} },
	func() rc.Message { return &rc.Twalk{Fid: 0, NewFid: 2, Names: []string{"a"}} },
	func() rc.Message { return &rc.Twalk{Fid: 0, NewFid: 1, Names: []string{"a", "b"}} },
	func() rc.Message { return &rc.Twalk{Fid: 0, NewFid: 1, Names: []string{"b", "b"}} },
	func() rc.Message { return &rc.Twalk{Fid: 0, NewFid: 1, Names: []string{"a", "nope"}} },
	func() rc.Message { return &rc.Twalk{Fid: 1, NewFid: 2, Names: []string{"b"}} },
	func() rc.Message { return &rc.Twalk{Fid: 1, NewFid: 1, Names: []string{"b"}} },
	func() rc.Message { return &rc.Twalk{Fid: 1, NewFid: 1, Names: []string{"d"}} },
	func() rc.Message { return &rc.Twalk{Fid: 1, NewFid: 2} },
	func() rc.Message { return &rc.Twalk{Fid: 1, NewFid: 1} },
	func() rc.Message { return &rc.Twalk{Fid: 1, NewFid: 2, Names: []string{".."}} },
	func() rc.Message { return &rc.Twalkgetattr{Fid: 1, NewFid: 2, Names: []string{"b"}} },
	func() rc.Message { return &rc.Twalkgetattr{Fid: 0, NewFid: 0} },
	func() rc.Message { return &rc.Tlopen{Fid: 1, Flags: 0} },
	func() rc.Message { return &rc.Tlopen{Fid: 1, Flags: 1} },
	func() rc.Message { return &rc.Tlopen{Fid: 1, Flags: 2} },
	func() rc.Message { return &rc.Tlopen{Fid: 2, Flags: 0} },
	func() rc.Message { return &rc.Tlopen{Fid: 0, Flags: 0} },
	func() rc.Message { return &rc.Tlcreate{Fid: 1, Name: "n", Flags: 2, Mode: 0o644} },
	func() rc.Message { return &rc.Tlcreate{Fid: 1, Name: "b", Flags: 0, Mode: 0o644} },
	func() rc.Message { return &rc.Tucreate{Tlcreate: rc.Tlcreate{Fid: 2, Name: "n", Flags: 1, Mode: 0o600}, UID: 5} },
	func() rc.Message { return &rc.Tmkdir{Dfid: 1, Name: "m", Mode: 0o755} },
	func() rc.Message { return &rc.Tsymlink{Dfid: 1, Name: "sl", Target: "t"} },
	func() rc.Message { return &rc.Tmknod{Dfid: 0, Name: "nod", Mode: rc.SIfifo | 0o600} },
	func() rc.Message { return &rc.Tlink{Dfid: 0, Fid: 1, Name: "hard"} },
	func() rc.Message { return &rc.Tunlinkat{DirFid: 1, Name: "b"} },
	func() rc.Message { return &rc.Tunlinkat{DirFid: 0, Name: "b"} },
	func() rc.Message { return &rc.Tunlinkat{DirFid: 0, Name: "a"} },
	func() rc.Message { return &rc.Tunlinkat{DirFid: 1, Name: "d"} },
	func() rc.Message { return &rc.Trenameat{OldDirFid: 0, OldName: "b", NewDirFid: 1, NewName: "c"} },
	func() rc.Message { return &rc.Trenameat{OldDirFid: 1, OldName: "b", NewDirFid: 0, NewName: "b"} },
	func() rc.Message { return &rc.Trenameat{OldDirFid: 0, OldName: "a", NewDirFid: 0, NewName: "a"} },
	func() rc.Message { return &rc.Trename{Fid: 1, Dfid: 0, Name: "z"} },
	func() rc.Message { return &rc.Trename{Fid: 2, Dfid: 1, Name: "z"} },
	func() rc.Message { return &rc.Trename{Fid: 0, Dfid: 0, Name: "z"} },
	func() rc.Message { return &rc.Tremove{Fid: 1} },
	func() rc.Message { return &rc.Tremove{Fid: 2} },
	func() rc.Message { return &rc.Tremove{Fid: 0} },
	func() rc.Message { return &rc.Tclunk{Fid: 1} },
	func() rc.Message { return &rc.Tclunk{Fid: 2} },
	func() rc.Message { return &rc.Tclunk{Fid: 0} },
	func() rc.Message { return &rc.Tread{Fid: 1, Offset: 0, Count: 8} },
	func() rc.Message { return &rc.Tread{Fid: 2, Offset: 1, Count: 2} },
	func() rc.Message { return &rc.Twrite{Fid: 1, Offset: 0, Data: []byte("ab")} },
	func() rc.Message { return &rc.Twrite{Fid: 1, Offset: 2, Data: []byte("c")} },
	func() rc.Message { return &rc.Treaddir{Fid: 1, Offset: 0, Count: 512} },
	func() rc.Message { return &rc.Treaddir{Fid: 1, Offset: 0, Count: 0} },
	func() rc.Message { return &rc.Tread{Fid: 1, Offset: 0, Count: 0} },
	func() rc.Message { return &rc.Tfsync{Fid: 1} },
	func() rc.Message { return &rc.Treadlink{Fid: 1} },
	func() rc.Message { return &rc.Tgetattr{Fid: 1, Mask: rc.GetattrAll} },
	func() rc.Message { return &rc.Tgetattr{Fid: 2, Mask: rc.GetattrMode} },
	func() rc.Message { return &rc.Tsetattr{Fid: 1, Valid: rc.SetattrMode, Mode: 0o7777} },
	func() rc.Message { return &rc.Tstatfs{Fid: 1} },
	func() rc.Message { return &rc.Tlock{Fid: 1, Type: 1, ClientID: "c"} },
	func() rc.Message { return &rc.Txattrwalk{Fid: 1, NewFid: 2, Name: "user.x"} },
	func() rc.Message { return &rc.Txattrwalk{Fid: 1, NewFid: 2, Name: ""} },
	func() rc.Message { return &rc.Txattrwalk{Fid: 1, NewFid: 1, Name: "user.x"} },
	func() rc.Message { return &rc.Txattrcreate{Fid: 1, Name: "user.y", AttrSize: 3, Flags: 0} },
	func() rc.Message { return &rc.Txattrcreate{Fid: 1, Name: "user.x", AttrSize: 0, Flags: 2} },
	func() rc.Message { return &rc.Tattach{Fid: 1, Afid: rc.NoFid, Uname: "u", Aname: "", NUname: rc.NoUID} },
	func() rc.Message { return &rc.Tattach{Fid: 2, Afid: rc.NoFid, Uname: "u", Aname: "a/b", NUname: rc.NoUID} },
	func() rc.Message { return &rc.Tattach{Fid: 2, Afid: rc.NoFid, Uname: "u", Aname: "/a/../b", NUname: rc.NoUID} },
	func() rc.Message { return &rc.Tattach{Fid: 2, Afid: 1, Uname: "u", Aname: "", NUname: rc.NoUID} },
	func() rc.Message { return &rc.Tauth{Afid: 2, Uname: "u", Aname: "", NUname: 0} },
	func() rc.Message { return &rc.Tflush{OldTag: 77} },
	func() rc.Message { return &rc.Rclunk{} },
	func() rc.Message { return &rc.Tversion{Msize: 4096, Version: "9P2000.L.Google.3"} },
}

func c04Depth(tier string) int {
	if tier == "thorough" {
		return 3
	}
	return 2
}

// The sweep enumerates every sequence of c04Depth requests, once without any
// backend fault and once per position with the first backend call made for
// the request at that position failing.
func c04Seqs(tier string) int {
	n := 1
	for i := 0; i < c04Depth(tier); i++ {
		n *= len(c04Alphabet)
	}
	return n
}

func c04SweepSize(tier string) int { return c04Seqs(tier) * (c04Depth(tier) + 1) }

// genRandomReq draws a request over a wider space (5 fids incl. never-bound
// ones, safe and unsafe names, all request types).
func genRandomReq(ch func(int) int, bound func() []uint32) rc.Message {
	fid := func() uint32 {
		if b := bound(); len(b) > 0 && ch(5) != 0 {
			return b[ch(len(b))]
		}
		return uint32(ch(5))
	}
	names := []string{"a", "b", "d", "l", "p", "n", "m", "z", "c", "..", ".", "", "a/b", "nope"}
	name := func() string {
		if ch(8) == 0 {
			return names[9+ch(5)]
		}
		return names[ch(9)]
	}
	switch ch(30) {
	case 0, 1, 2, 3:
		var ns []string
		for k := ch(4); k > 0; k-- {
			ns = append(ns, name())
		}
		if ch(4) == 0 {
			return &rc.Twalkgetattr{Fid: fid(), NewFid: fid(), Names: ns}
		}
		return &rc.Twalk{Fid: fid(), NewFid: fid(), Names: ns}
	case 4, 5:
		return &rc.Tlopen{Fid: fid(), Flags: uint32(ch(4)) | uint32(ch(2))*0o1000}
	case 6:
		if ch(2) == 0 {
			return &rc.Tucreate{Tlcreate: rc.Tlcreate{Fid: fid(), Name: name(), Flags: uint32(ch(3)), Mode: 0o640, GID: 3}, UID: 4}
		}
		return &rc.Tlcreate{Fid: fid(), Name: name(), Flags: uint32(ch(3)), Mode: 0o644}
	case 7:
		return &rc.Tmkdir{Dfid: fid(), Name: name(), Mode: 0o755}
	case 8:
		return &rc.Tsymlink{Dfid: fid(), Name: name(), Target: "x/../y"}
	case 9:
		return &rc.Tmknod{Dfid: fid(), Name: name(), Mode: []uint32{rc.SIfifo, rc.SIfchr, rc.SIfsock, rc.SIfreg}[ch(4)] | 0o600, Major: 1, Minor: 2}
	case 10:
		return &rc.Tlink{Dfid: fid(), Fid: fid(), Name: name()}
	case 11, 12:
		return &rc.Tunlinkat{DirFid: fid(), Name: name(), Flags: uint32(ch(2)) * 0x200}
	case 13, 14:
		return &rc.Trenameat{OldDirFid: fid(), OldName: name(), NewDirFid: fid(), NewName: name()}
	case 15:
		return &rc.Trename{Fid: fid(), Dfid: fid(), Name: name()}
	case 16:
		return &rc.Tremove{Fid: fid()}
	case 17, 18:
		return &rc.Tclunk{Fid: fid()}
	case 19:
		return &rc.Tread{Fid: fid(), Offset: uint64(ch(12)), Count: uint32(ch(20))}
	case 20:
		return &rc.Twrite{Fid: fid(), Offset: uint64(ch(6)), Data: []byte("wxyz")[:ch(5)]}
	case 21:
		return &rc.Treaddir{Fid: fid(), Offset: uint64(ch(4)), Count: []uint32{0, 0, 24, 60, 330}[ch(5)] + uint32(ch(2))}
	case 22:
		return []rc.Message{&rc.Tfsync{Fid: fid()}, &rc.Treadlink{Fid: fid()}, &rc.Tstatfs{Fid: fid()}, &rc.Tlock{Fid: fid(), Type: uint8(ch(3))}}[ch(4)]
	case 23:
		return &rc.Tgetattr{Fid: fid(), Mask: uint64(ch(1 << 14))}
	case 24:
		return &rc.Tsetattr{Fid: fid(), Valid: uint32(ch(1 << 9)), Mode: uint32(ch(0o10000)), UID: uint32(ch(3)), GID: uint32(ch(3)), Size: uint64(ch(20)), ATimeSec: 5, MTimeSec: 6}
	case 25:
		return &rc.Txattrwalk{Fid: fid(), NewFid: fid(), Name: []string{"user.x", "", "user.nope", "user.y"}[ch(4)]}
	case 26:
		return &rc.Txattrcreate{Fid: fid(), Name: "user.y", AttrSize: uint64(ch(4)), Flags: uint32(ch(3))}
	case 27:
		an := []string{"", "/", "a", "a/b", "/a/d", "a//b", "/../x", "a/./b", "a/", "//", "b/x", "nope"}[ch(12)]
		afid := uint32(rc.NoFid)
		if ch(6) == 0 {
			afid = fid()
		}
		return &rc.Tattach{Fid: fid(), Afid: afid, Uname: "u", Aname: an, NUname: rc.NoUID}
	case 28:
		return []rc.Message{&rc.Tauth{Afid: fid(), Uname: "u"}, &rc.Tflush{OldTag: uint16(ch(100))}, &rc.Rclunk{}, &rc.Rwalk{}}[ch(4)]
	}
	return &rc.Tgetattr{Fid: fid(), Mask: rc.GetattrAll}
}

func runC04(rcx *RunCtx) {
	cfg := simCfg(rcx)
	var seq []rc.Message
	nrand := 0
	sweep := rcx.Index < c04SweepSize(rcx.Tier)
	faultAt := -1 // position in seq whose first backend call fails
	faultPct := 0 // random histories: chance per backend call
	if sweep {
		k := rcx.Index % c04Seqs(rcx.Tier)
		faultAt = rcx.Index/c04Seqs(rcx.Tier) - 1
		for d := 0; d < c04Depth(rcx.Tier); d++ {
			seq = append(seq, c04Alphabet[k%len(c04Alphabet)]())
			k /= len(c04Alphabet)
		}
		rcx.Label = "sweep"
	} else {
		nrand = 20 + rcx.Plan.Choose(120)
		rcx.Label = "random"
		faultPct = []int{0, 0, 5, 20}[rcx.Plan.Choose(4)]
	}
	if faultAt >= 0 {
		rcx.Label = "sweep+backend-error"
	} else if faultPct > 0 {
		rcx.Label = "random+backend-errors"
	}
	wga := rcx.Plan.Choose(2) == 1
	ver := 7 - rcx.Plan.Choose(8)
	var trace []string
	rcx.Res = simrt.Run(cfg, rcx.Sched, func() {
		fs := simfs.New()
		fs.WalkGetAttrENOSYS = wga
		c04Tree(fs)
		// Backend errors (never on Close/Renamed, which have no reply to carry
		// them): a request whose backend call fails must fail with that errno
		// and, clunk and remove apart, leave the session as it was.
		armed := false
		fs.FaultFn = func(cl *simfs.Call) *simfs.Fault {
			if cl.Method == "Close" || cl.Method == "Renamed" {
				return nil
			}
			if armed || (faultPct > 0 && simrt.Pct(faultPct)) {
				armed = false
				return &simfs.Fault{Err: injectedErrs[simrt.Choose(len(injectedErrs))]}
			}
			return nil
		}
		w := NewWorld(nil, fs)
		c := w.Connect()
		model := newSessModel()
		find := func(oracle, key, format string, args ...interface{}) {
			rcx.Find("C04", oracle, key, format, args...)
		}
		step := func(m rc.Message) {
			mark := len(fs.Calls)
			tag := c.Tag()
			if _, ok := m.(*rc.Tversion); ok {
				tag = rc.NoTag
			}
			v := model.judge(m)
			req := c.Send(tag, m)
			simrt.WaitQuiescent()
			if req == nil || req.Reply == nil {
				find("no-reply", rc.TypeName(m.MsgType()), "%s was not answered", rc.String(m))
				return
			}
			if len(trace) < 12 {
				trace = append(trace, rc.String(m)+" -> "+rc.String(req.Reply.Msg))
			}
			model.checkStep(find, v, m, req.Reply.Msg, fs.Calls[mark:])
			rcx.Count("requests", 1)
			if _, isErr := req.Reply.Msg.(*rc.Rlerror); isErr {
				rcx.Count("requests.rejected", 1)
			}
		}
		step(&rc.Tversion{Msize: 8192, Version: versionStr(ver)})
		step(&rc.Tattach{Fid: 0, Afid: rc.NoFid, Uname: "u", Aname: "", NUname: rc.NoUID})
		for i, m := range seq {
			if len(rcx.Findings) > 0 {
				break
			}
			armed = i == faultAt
			step(m)
			armed = false
		}
		for i := 0; i < nrand && len(rcx.Findings) == 0; i++ {
			// drawn while the run proceeds, biased towards fids the model has bound
			m := genRandomReq(simrt.Choose, model.boundFids)
			seq = append(seq, m)
			step(m)
		}
		// fid table probe: model's bound set == fids that do not answer EBADF
		if len(rcx.Findings) == 0 {
			for fid := uint32(0); fid < 6; fid++ {
				req := c.Send(c.Tag(), &rc.Tstatfs{Fid: fid})
				simrt.WaitQuiescent()
				if req.Reply == nil {
					continue
				}
				_, bound := model.fids[fid]
				gotBound := Errno(req.Reply.Msg) != EBADF
				if bound != gotBound {
					find("fid-table", "probe", "after %d requests fid %d: model bound=%v, server bound=%v (history head: %v)", len(seq), fid, bound, gotBound, trace)
				}
			}
		}
		w.Shutdown()
		rcx.Findings = append(rcx.Findings, w.Findings...)
	})
	rcx.Sample = map[string]interface{}{"backend_error_at_request": faultAt, "backend_error_pct": faultPct, "mode": rcx.Label, "version": ver, "walkgetattr_enosys": wga, "history_head": trace, "length": len(seq)}
	finishRun(rcx)
}

func init() {
	Register(&Engine{
		ID:   "C04",
		Desc: "session state machine: lock-step histories against an executable 9P2000.L session model",
		Run:  runC04,
		Directed: func(tier string) int { return c04SweepSize(tier) },
		Quick:    48000, Thorough: 3000000, QuickSecs: 60, ThorSecs: 1500,
		Rule: fmt.Sprintf("sweep: ALL sequences of depth 2 (quick) / 3 (thorough) over an alphabet of %d request templates, each once fault-free and once per position with the first backend call of the request at that position failing (errno from a list incl. wrapped and opaque errors) (3 fids, tree {dir, file, symlink, fifo, socket}, every request type incl. xattr sub-protocol, auth, R-types) after version+attach; random: 20-140 requests over 5 fid numbers (incl. never-bound), safe and unsafe names, all types, half of the runs with 5%% or 20%% of backend calls failing. Oracle: executable session model (bound / kind / opened / mode / xattr state per fid) deciding reject-with-errno-set-and-no-backend-call vs forwarded; forwarded replies compared with the backend call log; fid-table probe at the end. Distinct = (mode, schedule fingerprint); the sweep part is exhaustive over its stated bound.", len(c04Alphabet)),
		Assume: []string{"where the statement allows two errnos both are accepted", "operations other than read/write/clunk on xattr fids, open mode 3, and over-long read counts are generated but only required to be answered"},
		Real:   []string{"p9.Server", "p9 handlers / fid table", "p9 wire codec"},
		Stub:   []string{"transport (simnet pipes)", "backend tree (simfs)", "raw 9P peer (refcodec)"},
	})
}
