package sim

import (
	"fmt"
	"os"

	"github.com/hugelgupf/p9/linux"
	rc "github.com/hugelgupf/p9/zzverif/refcodec"
	"github.com/hugelgupf/p9/zzverif/simfs"
	"github.com/hugelgupf/p9/zzverif/simrt"
)

// C15 — fault containment.  Lock-step histories on a victim connection (and a
// bystander connection on the same server) with one to three injected backend
// faults per run: an error (errno, wrapped, os.Err*, opaque) or a panic at a
// tape-chosen backend call index.  The session model of C04 supplies the
// expected replies (errno of the error, EFAULT for a panic) and the expected
// fid table; after every faulted request the same node, its parent and an
// unrelated node are probed from both connections (a leaked lock shows as a
// probe that is never answered), and every File obtained during a request
// that failed with an error must have been closed by the time it is answered.

func runC15(rcx *RunCtx) {
	cfg := simCfg(rcx)
	p := rcx.Plan
	nreq := 10 + p.Choose(50)
	nfaults := 1 + p.Choose(3)
	wga := p.Choose(2) == 1
	ver := 7 - p.Choose(8)
	type plan struct {
		at    int
		panic bool
		err   error
	}
	var plans []plan
	for i := 0; i < nfaults; i++ {
		pl := plan{at: p.Choose(6 + nreq/2), panic: p.Choose(3) == 0}
		pl.err = injectedErrs[p.Choose(len(injectedErrs))]
		plans = append(plans, pl)
	}
	// directed part: fault at every call index 0..79, error and panic
	if rcx.Index < 160 {
		plans = []plan{{at: rcx.Index / 2, panic: rcx.Index%2 == 1, err: injectedErrs[(rcx.Index/2)%len(injectedErrs)]}}
		nreq = 40
	}
	rcx.Label = fmt.Sprintf("faults=%d", len(plans))
	var trace []string
	fired, firedPanic := 0, 0
	rcx.Res = simrt.Run(cfg, rcx.Sched, func() {
		fs := simfs.New()
		fs.WalkGetAttrENOSYS = wga
		c04Tree(fs)
		w := NewWorld(nil, fs)
		victim := w.Connect()
		by := w.Connect()
		model := newSessModel()
		bymodel := newSessModel()
		find := func(oracle, key, format string, args ...interface{}) {
			rcx.Find("C15", oracle, key, format, args...)
		}
		base := -1
		fs.FaultFn = func(c *simfs.Call) *simfs.Fault {
			if base < 0 || c.Method == "Close" || c.Method == "Renamed" {
				return nil
			}
			for _, pl := range plans {
				if c.Seq-base == pl.at {
					if pl.panic {
						firedPanic++
						// what a backend panics with: a string, an error,
						// an errno, a runtime error
						var pv interface{}
						switch simrt.Choose(5) {
						case 1:
							pv = fmt.Errorf("injected panic in %s", c.Method)
						case 2:
							pv = linux.ENOSPC
						case 3:
							pv = os.ErrNotExist
						case 4:
							var m map[string]int
							pv = func() (r interface{}) {
								defer func() { r = recover() }()
								m["x"] = 1 // a genuine runtime.Error
								return nil
							}()
						}
						return &simfs.Fault{Panic: "injected panic in " + c.Method, PanicVal: pv}
					}
					fired++
					return &simfs.Fault{Err: pl.err}
				}
			}
			return nil
		}
		step := func(c *SrvConn, mdl *sessModel, m rc.Message, probe bool) (rep rc.Message, faulted, panicked bool) {
			mark, hmark := len(fs.Calls), len(fs.Handles)
			tag := c.Tag()
			if _, ok := m.(*rc.Tversion); ok {
				tag = rc.NoTag
			}
			v := mdl.judge(m)
			req := c.Send(tag, m)
			simrt.WaitQuiescent()
			if req == nil || req.Reply == nil {
				what := "request"
				if probe {
					what = "probe after a fault"
				}
				find("not-answered", rc.TypeName(m.MsgType()), "%s %s on c%d was never answered (a lock leaked?); history: %v", what, rc.String(m), c.ID, trace)
				return nil, false, false
			}
			calls := fs.Calls[mark:]
			for _, cl := range calls {
				if cl.Faulted {
					faulted = true
				}
				if cl.Panicked {
					panicked = true
				}
			}
			if len(trace) < 30 {
				t := fmt.Sprintf("c%d %s -> %s", c.ID, rc.String(m), rc.String(req.Reply.Msg))
				if faulted {
					t += " [FAULT]"
				}
				trace = append(trace, t)
			}
			mdl.checkStep(find, v, m, req.Reply.Msg, calls)
			// Files obtained during a request that failed with an error are closed
			if _, isErr := req.Reply.Msg.(*rc.Rlerror); isErr && faulted && !panicked {
				for _, h := range fs.Handles[hmark:] {
					if !h.Closed() {
						find("file-not-closed-after-error", rc.TypeName(m.MsgType())+"/"+h.CreatedBy, "%s failed with an injected error, but the File it obtained (handle %d %s from %s) is still open when the error is answered", rc.String(m), h.ID, h.Path(), h.CreatedBy)
					}
				}
			}
			return req.Reply.Msg, faulted, panicked
		}
		for _, cm := range []struct {
			c *SrvConn
			m *sessModel
		}{{victim, model}, {by, bymodel}} {
			step(cm.c, cm.m, &rc.Tversion{Msize: 8192, Version: versionStr(ver)}, false)
			step(cm.c, cm.m, &rc.Tattach{Fid: 0, Afid: rc.NoFid, Uname: "u", Aname: "", NUname: rc.NoUID}, false)
		}
		// bystander holds fids on the shared tree
		step(by, bymodel, &rc.Twalk{Fid: 0, NewFid: 1, Names: []string{"a"}}, false)
		step(by, bymodel, &rc.Twalk{Fid: 0, NewFid: 2, Names: []string{"b"}}, false)
		step(by, bymodel, &rc.Twalk{Fid: 0, NewFid: 3, Names: []string{"a", "d"}}, false)
		base = fs.NCalls
		for i := 0; i < nreq && len(rcx.Findings) == 0; i++ {
			m := genRandomReq(simrt.Choose, model.boundFids)
			_, faulted, _ := step(victim, model, m, false)
			if faulted && len(rcx.Findings) == 0 {
				// continued use of the same paths and fids, from both connections
				for _, f := range fidsOf(m) {
					step(victim, model, &rc.Tgetattr{Fid: f, Mask: rc.GetattrAll}, true)
				}
				step(victim, model, &rc.Tgetattr{Fid: 0, Mask: rc.GetattrAll}, true)
				step(victim, model, &rc.Tmkdir{Dfid: 0, Name: fmt.Sprintf("probe%d", i), Mode: 0o700}, true)
				step(victim, model, &rc.Trenameat{OldDirFid: 0, OldName: fmt.Sprintf("probe%d", i), NewDirFid: 0, NewName: fmt.Sprintf("probed%d", i)}, true)
				for _, f := range []uint32{0, 1, 2, 3} {
					step(by, bymodel, &rc.Tgetattr{Fid: f, Mask: rc.GetattrAll}, true)
				}
				step(by, bymodel, &rc.Tsetattr{Fid: 1, Valid: rc.SetattrMode, Mode: 0o755}, true)
				step(by, bymodel, &rc.Tunlinkat{DirFid: 0, Name: fmt.Sprintf("probed%d", i)}, true)
			} else if simrt.Choose(4) == 0 {
				step(by, bymodel, genRandomReq(simrt.Choose, bymodel.boundFids), false)
			}
		}
		// fid table probe on the victim
		if len(rcx.Findings) == 0 {
			fs.FaultFn = nil
			for fid := uint32(0); fid < 6; fid++ {
				req := victim.Send(victim.Tag(), &rc.Tstatfs{Fid: fid})
				simrt.WaitQuiescent()
				if req.Reply == nil {
					find("not-answered", "Tstatfs", "fid table probe not answered")
					continue
				}
				if model.maybe[fid] {
					continue
				}
				_, bound := model.fids[fid]
				if gotBound := Errno(req.Reply.Msg) != EBADF; bound != gotBound {
					find("fid-table", "probe", "after faults fid %d: model bound=%v, server bound=%v; history %v", fid, bound, gotBound, trace)
				}
			}
		}
		fs.FaultFn = nil
		w.Shutdown()
		rcx.Findings = append(rcx.Findings, w.Findings...)
	})
	rcx.Count("faults.error_fired", fired)
	rcx.Count("faults.panic_fired", firedPanic)
	if fired+firedPanic == 0 {
		rcx.Trivial = true
	}
	if len(trace) > 12 {
		trace = trace[:12]
	}
	rcx.Sample = map[string]interface{}{"requests": nreq, "fault_plan_size": len(plans), "version": ver, "walkgetattr_enosys": wga, "history_head": trace}
	finishRun(rcx)
	// a panic that escaped the handler would have reached the top of a task
	for i := range rcx.Findings {
		if rcx.Findings[i].Prop == "C16" && rcx.Findings[i].Oracle == "task-panic" {
			rcx.Findings[i].Prop = "C15"
		}
	}
}

func init() {
	Register(&Engine{
		ID:   "C15",
		Desc: "fault containment: backend errors and panics affect only their request",
		Run:  runC15,
		Directed: func(string) int { return 160 },
		Quick:    64000, Thorough: 4500000, QuickSecs: 60, ThorSecs: 1500,
		Rule:  "directed: one fault at every backend call index 0..79 of a 40-request random history, as an error and as a panic; random: 10-60 request histories (all request types, fids biased to bound ones) with 1-3 faults at tape-chosen call indices, each an error drawn from {linux.Errno, syscall.Errno, os.ErrNotExist, %w-wrapped, *os.PathError, opaque} or (1/3) a panic (with a string, an error, an errno, os.ErrNotExist or a runtime error as its value); after every faulted request the same fids, the root, a create+rename+unlink in the root, and four fids of a second connection are exercised. Oracle: C04 session model for the reply (errno of the error per the extraction rule, EFAULT for a panic) and for the fid table (unchanged after an error except clunk/remove); every probe answered at quiescence (leaked lock => unanswered); Files obtained during a request that failed with an error are closed when it is answered; no panic reaches the top of a goroutine. Non-trivial = at least one fault actually fired.",
		Assume: []string{"after a panic only containment is asserted (the statement promises table and handle cleanliness for errors)", "faults are not injected into Close and Renamed (Close errors are ignored by contract, Renamed may not fail)"},
		Real:   []string{"p9.Server", "p9 handlers / path tree / fid table", "p9 wire codec", "linux.ExtractErrno"},
		Stub:   []string{"transport (simnet pipes)", "backend tree (simfs) with fault plan", "raw 9P peer (refcodec)"},
		Owns:   []string{"C04"},
	})
}
