package sim

import (
	"fmt"
	"strings"

	rc "github.com/hugelgupf/p9/zzverif/refcodec"
	"github.com/hugelgupf/p9/zzverif/simfs"
	"github.com/hugelgupf/p9/zzverif/simrt"
)

// C09 — name confinement.  Input property riding on engine E1: every
// name-bearing field of every request x a list of hostile and harmless names;
// attach names; walks through non-directory intermediates.  The backend-side
// oracle (simfs.begin) flags any unsafe component or walk from a non-directory
// that reaches a File, in every run of every engine.

var c09Names = []string{"", ".", "..", "a/b", "/", "a/", "/a", "../x", "x/..", "..a", "a..", "...", "x\x00y", "\xff\xfe\x80", strings.Repeat("n", 255), strings.Repeat("L", 65535), "ok"}

func c09Unsafe(n string) bool {
	return n == "" || n == "." || n == ".." || strings.Contains(n, "/")
}

type c09Field struct {
	Name  string
	Build func(n string) rc.Message
}

// fids: 1 = directory /a, 2 = regular file /b, 3 = directory /a/d, 0 = root
var c09Fields = []c09Field{
	{"Twalk.names[0]", func(n string) rc.Message { return &rc.Twalk{Fid: 1, NewFid: 9, Names: []string{n}} }},
	{"Twalk.names[1]", func(n string) rc.Message { return &rc.Twalk{Fid: 0, NewFid: 9, Names: []string{"a", n}} }},
	{"Twalk.names[2]", func(n string) rc.Message { return &rc.Twalk{Fid: 0, NewFid: 9, Names: []string{"a", "d", n}} }},
	{"Twalkgetattr.names[0]", func(n string) rc.Message { return &rc.Twalkgetattr{Fid: 1, NewFid: 9, Names: []string{n}} }},
	{"Twalkgetattr.names[1]", func(n string) rc.Message {
		return &rc.Twalkgetattr{Fid: 0, NewFid: 9, Names: []string{"a", n}}
	}},
	{"Tlcreate.name", func(n string) rc.Message { return &rc.Tlcreate{Fid: 1, Name: n, Flags: 2, Mode: 0o644} }},
	{"Tucreate.name", func(n string) rc.Message {
		return &rc.Tucreate{Tlcreate: rc.Tlcreate{Fid: 1, Name: n, Flags: 2, Mode: 0o644}, UID: 1}
	}},
	{"Tmkdir.name", func(n string) rc.Message { return &rc.Tmkdir{Dfid: 1, Name: n, Mode: 0o755} }},
	{"Tumkdir.name", func(n string) rc.Message {
		return &rc.Tumkdir{Tmkdir: rc.Tmkdir{Dfid: 1, Name: n, Mode: 0o755}, UID: 1}
	}},
	{"Tsymlink.name", func(n string) rc.Message { return &rc.Tsymlink{Dfid: 1, Name: n, Target: "../../free/text"} }},
	{"Tusymlink.name", func(n string) rc.Message {
		return &rc.Tusymlink{Tsymlink: rc.Tsymlink{Dfid: 1, Name: n, Target: "/abs/../x"}, UID: 1}
	}},
	{"Tlink.name", func(n string) rc.Message { return &rc.Tlink{Dfid: 1, Fid: 2, Name: n} }},
	{"Tmknod.name", func(n string) rc.Message { return &rc.Tmknod{Dfid: 1, Name: n, Mode: rc.SIfifo | 0o600} }},
	{"Tumknod.name", func(n string) rc.Message {
		return &rc.Tumknod{Tmknod: rc.Tmknod{Dfid: 1, Name: n, Mode: rc.SIfchr | 0o600, Major: 1, Minor: 3}, UID: 1}
	}},
	{"Trename.name", func(n string) rc.Message { return &rc.Trename{Fid: 2, Dfid: 1, Name: n} }},
	{"Trenameat.oldname", func(n string) rc.Message {
		return &rc.Trenameat{OldDirFid: 1, OldName: n, NewDirFid: 3, NewName: "fine"}
	}},
	{"Trenameat.newname", func(n string) rc.Message {
		return &rc.Trenameat{OldDirFid: 1, OldName: "b", NewDirFid: 3, NewName: n}
	}},
	{"Tunlinkat.name", func(n string) rc.Message { return &rc.Tunlinkat{DirFid: 1, Name: n} }},
	// symlink targets are free text and must pass
	{"Tsymlink.target", func(n string) rc.Message { return &rc.Tsymlink{Dfid: 1, Name: "lnk", Target: n} }},
}

var c09Attach = []string{"", "/", "a", "/a", "a/d", "/a/d", "a//b", "/../x", "a/./b", "a/", "//", "/a/b", "../a", "a/..", "b/x", "l/x", "p/x", "s/x", "c/x", "a/b/x", "nope"}

// walks whose intermediate components are not directories
var c09Through = [][]string{{"b", "x"}, {"l", "x"}, {"p", "x"}, {"c", "x"}, {"s", "x"}, {"a", "b", "x"}, {"l"}, {"a", "l2", "b"}}

func c09Tree(fs *simfs.FS) {
	fs.MkPath("/a/")
	fs.MkPath("/a/b")
	fs.MkPath("/a/d/")
	fs.MkPath("/a/l2->d")
	fs.MkPath("/b")
	fs.MkPath("/l->a")
	fs.MkPath("/|p")
	fs.MkPath("/%c")
	fs.MkPath("/=s")
}

func c09Cases() int { return len(c09Fields)*len(c09Names) + len(c09Attach) + len(c09Through)*4 }

func msgNames(m rc.Message) []string {
	switch t := m.(type) {
	case *rc.Twalk:
		return t.Names
	case *rc.Twalkgetattr:
		return t.Names
	}
	return nil
}

func runC09(rcx *RunCtx) {
	cfg := simCfg(rcx)
	idx := rcx.Index
	var msg rc.Message
	var expectReject bool   // must be EINVAL
	var expectNoReject bool // must NOT fail because of the name
	var nameUsed string
	var stepwise []string // components walked by earlier requests, binding fid 8
	switch {
	case idx < len(c09Fields)*len(c09Names):
		f := c09Fields[idx/len(c09Names)]
		nameUsed = c09Names[idx%len(c09Names)]
		msg = f.Build(nameUsed)
		rcx.Label = f.Name
		if f.Name == "Tsymlink.target" {
			expectNoReject = true
		} else if c09Unsafe(nameUsed) {
			expectReject = true
		} else {
			expectNoReject = true
		}
	case idx < len(c09Fields)*len(c09Names)+len(c09Attach):
		nameUsed = c09Attach[idx-len(c09Fields)*len(c09Names)]
		msg = &rc.Tattach{Fid: 9, Afid: rc.NoFid, Uname: "u", Aname: nameUsed, NUname: rc.NoUID}
		rcx.Label = "Tattach.aname"
		rest := strings.TrimPrefix(nameUsed, "/")
		if rest != "" {
			for _, c := range strings.Split(rest, "/") {
				if c09Unsafe(c) {
					expectReject = true
				}
			}
		}
	case idx < c09Cases():
		k := idx - len(c09Fields)*len(c09Names) - len(c09Attach)
		names := c09Through[k/4]
		from := uint32(0)
		rcx.Label = "walk-through-non-directory"
		if k%4 >= 2 && len(names) > 1 {
			// the same path, one request per component: the last request
			// starts from a fid that is bound to the non-directory
			stepwise = names[:len(names)-1]
			names = names[len(names)-1:]
			from = 8
			rcx.Label = "walk-from-non-directory-fid"
		}
		if k%2 == 0 {
			msg = &rc.Twalk{Fid: from, NewFid: 9, Names: names}
		} else {
			msg = &rc.Twalkgetattr{Fid: from, NewFid: 9, Names: names}
		}
		nameUsed = strings.Join(c09Through[k/4], "/")
		expectReject = len(c09Through[k/4]) > 1
	default:
		// random: a random field with a randomly mangled name
		f := c09Fields[rcx.Plan.Choose(len(c09Fields))]
		base := []string{"a", "b", "zz", "..", ".", ""}[rcx.Plan.Choose(6)]
		for k := rcx.Plan.Choose(4); k > 0; k-- {
			piece := []string{"/", ".", "..", "x", "\x00", "\xc3", "//"}[rcx.Plan.Choose(7)]
			if rcx.Plan.Choose(2) == 0 {
				base = base + piece
			} else {
				base = piece + base
			}
		}
		nameUsed = base
		msg = f.Build(nameUsed)
		rcx.Label = "random " + f.Name
		if f.Name != "Tsymlink.target" && c09Unsafe(nameUsed) {
			expectReject = true
		}
	}
	wga := rcx.Plan.Choose(2) == 1
	ver := 7 - rcx.Plan.Choose(8)
	show := nameUsed
	if len(show) > 40 {
		show = fmt.Sprintf("%q...(%d bytes)", show[:16], len(show))
	}
	rcx.Sample = map[string]interface{}{"field": rcx.Label, "name": fmt.Sprintf("%q", show), "must_be_EINVAL": expectReject, "version": ver, "walkgetattr_enosys": wga}
	rcx.Res = simrt.Run(cfg, rcx.Sched, func() {
		fs := simfs.New()
		fs.WalkGetAttrENOSYS = wga
		c09Tree(fs)
		w := NewWorld(nil, fs)
		c := w.Connect()
		if !c.Start(256<<10, versionStr(ver)) || !c.WalkTo(0, 1, "/a") || !c.WalkTo(0, 2, "/b") || !c.WalkTo(0, 3, "/a/d") {
			rcx.Find("C09", "setup", "setup", "setup failed")
			return
		}
		for i, n := range stepwise {
			src := uint32(8)
			if i == 0 {
				src = 0
			}
			if Errno(c.RPC(&rc.Twalk{Fid: src, NewFid: 8, Names: []string{n}})) != 0 {
				rcx.Find("C09", "setup", "setup", "setup failed: step %q", n)
				return
			}
		}
		mark := len(fs.Calls)
		rep := c.RPC(msg)
		calls := fs.Calls[mark:]
		ec := Errno(rep)
		if expectReject {
			if ec != EINVAL {
				rcx.Find("C09", "unsafe-name-not-rejected", rcx.Label, "%s with name %q must fail with EINVAL, got %s", rcx.Label, show, rc.String(rep))
			}
			for _, cl := range calls {
				if cl.Method == "Close" || cl.Method == "Attach" || cl.Method == "GetAttr" {
					continue
				}
				if rcx.Label == "walk-from-non-directory-fid" {
					rcx.Find("C09", "walk-from-non-directory", rcx.Label, "a walk of %q from a fid bound to a non-directory (%s) reached the backend: %s", msgNames(msg), show, cl)
					continue
				}
				if _, isAttach := msg.(*rc.Tattach); isAttach || rcx.Label == "walk-through-non-directory" {
					continue // earlier, safe components may have been walked
				}
				rcx.Find("C09", "unsafe-name-reached-backend", rcx.Label, "%s with name %q reached the backend: %s", rcx.Label, show, cl)
			}
		}
		if expectNoReject && ec == EINVAL {
			// a harmless name must not be refused for being a name; EINVAL may
			// still come from elsewhere, so demand that the backend was asked
			reached := false
			for _, cl := range calls {
				if cl.Method != "Close" {
					reached = true
				}
			}
			if !reached {
				rcx.Find("C09", "harmless-name-rejected", rcx.Label, "%s with harmless name %q was refused with EINVAL before reaching the backend", rcx.Label, show)
			}
		}
		// whatever happened, the name the backend saw is the name that was sent
		if expectNoReject && rcx.Label != "Tsymlink.target" {
			for _, cl := range calls {
				for _, n := range append([]string{cl.Name}, cl.Names...) {
					if n != "" && len(n) >= len(nameUsed) && strings.Contains(nameUsed, "\x00") && n != nameUsed && strings.HasPrefix(nameUsed, n) {
						rcx.Find("C09", "name-truncated", rcx.Label, "backend received %q for sent name %q", n, show)
					}
				}
			}
		}
		w.Shutdown()
		rcx.Findings = append(rcx.Findings, w.Findings...)
	})
	finishRun(rcx)
}

func init() {
	Register(&Engine{
		ID:   "C09",
		Desc: "name confinement: no '.', '..', '/' or empty component reaches the backend; walks only through directories",
		Run:  runC09,
		Directed: func(string) int { return c09Cases() },
		Quick:    24000, Thorough: 3000000, QuickSecs: 60, ThorSecs: 900,
		Rule:  fmt.Sprintf("directed: %d name-bearing request fields x %d names (empty, dots, embedded/leading/trailing slashes, NUL, high bytes, 255 and 65535 bytes, harmless look-alikes '..a' 'a..' '...') + %d attach names + walks through file/symlink/fifo/chr/socket intermediates in one request and one request per component (the last starting from a fid bound to the non-directory), all in every tier; random: mangled names in random fields. Oracle: backend call log — no component empty, '.', '..' or containing '/' is ever received by any File method; Walk/WalkGetAttr with a name only on receivers the backend reported as directories and one component at a time; unsafe requests answered EINVAL; harmless names (and symlink targets, free text) are not refused. This is an input property: the simulator is the vehicle (real server stack, ownership of every call); the search is over names and fields, not schedules.", len(c09Fields), len(c09Names), len(c09Attach)),
		Assume: []string{"an attach name with an empty path after one leading slash is the root attach"},
		Real:   []string{"p9.Server", "p9 handlers", "p9 wire codec"},
		Stub:   []string{"transport (simnet pipes)", "backend tree (simfs)", "raw 9P peer (refcodec)"},
	})
}
