package sim

import (
	"fmt"
	"reflect"

	rc "github.com/hugelgupf/p9/zzverif/refcodec"
	"github.com/hugelgupf/p9/zzverif/simrt"
)

// C16 — global progress, race freedom, isolation.
//
//  (1) progress: random concurrent workloads (1-3 connections, up to 12 client
//      threads, with and without cross-directory renames, small reply pipes,
//      random segmentation): at quiescence every request is answered; a
//      deadlock prints the blocked tasks, step-budget exhaustion is a livelock.
//  (2) race freedom: the same workloads in a -race build whose scheduler
//      hand-offs are hidden from the detector (DESIGN.md §2.8); the harness is
//      compiled without race instrumentation.
//  (3) isolation: clients confined to disjoint subtrees and fids are first run
//      ALONE on a fresh server with the same private choice stream; in the
//      concurrent run each must observe exactly the same replies (inode
//      numbers normalised by first appearance).

type isoRec struct {
	req, rep string
}

// normaliser maps inode-derived numbers to first-appearance ordinals.
type normaliser struct{ ids map[uint64]uint64 }

func (n *normaliser) id(p uint64) uint64 {
	if v, ok := n.ids[p]; ok {
		return v
	}
	v := uint64(len(n.ids) + 1)
	n.ids[p] = v
	return v
}

func (n *normaliser) msg(m rc.Message) string {
	if m == nil {
		return "<nil>"
	}
	cp := reflect.New(reflect.TypeOf(m).Elem())
	cp.Elem().Set(reflect.ValueOf(m).Elem())
	n.walk(cp.Elem())
	out := cp.Interface().(rc.Message)
	if rd, ok := out.(*rc.Rreaddir); ok {
		ds, _ := rc.DecodeDirents(rd.Data)
		s := "Rreaddir{"
		for _, d := range ds {
			s += fmt.Sprintf("(%d %d %d %q)", d.QID.Type, n.id(d.QID.Path), d.Offset, d.Name)
		}
		return s + "}"
	}
	return fmt.Sprintf("%s%+v", rc.TypeName(out.MsgType()), reflect.ValueOf(out).Elem().Interface())
}

func (n *normaliser) walk(v reflect.Value) {
	switch v.Kind() {
	case reflect.Struct:
		if q, ok := v.Addr().Interface().(*rc.QID); ok {
			q.Path = n.id(q.Path)
			return
		}
		if a, ok := v.Addr().Interface().(*rc.Attr); ok {
			a.DataVersion = 0
			return
		}
		if s, ok := v.Addr().Interface().(*rc.Rstatfs); ok {
			s.Files = 0
			return
		}
		for i := 0; i < v.NumField(); i++ {
			n.walk(v.Field(i))
		}
	case reflect.Slice:
		if v.Type().Elem().Kind() == reflect.Struct {
			// copy before normalising: the original belongs to the monitor
			nv := reflect.MakeSlice(v.Type(), v.Len(), v.Len())
			reflect.Copy(nv, v)
			v.Set(nv)
			for i := 0; i < v.Len(); i++ {
				n.walk(v.Index(i))
			}
		}
	}
}

func runIsolation(rcx *RunCtx) {
	p := rcx.Plan
	seed := uint64(p.Choose(1<<30))<<1 | 1
	// fix the configuration draws so that solo and concurrent runs agree
	planVals := make([]uint32, 0, 16)
	for i := 0; i < 16; i++ {
		planVals = append(planVals, uint32(p.Choose(1<<16)))
	}
	type rec struct{ seq []isoRec }
	run := func(solo int, sched *simrt.Tape) (map[int]*rec, *RunCtx) {
		sub := &RunCtx{Prop: rcx.Prop, Tier: rcx.Tier, Index: rcx.Index, Plan: simrt.ReplayTape(planVals), Sched: sched, Trace: rcx.Trace && solo < 0}
		out := map[int]*rec{}
		norms := map[int]*normaliser{}
		o := workloadOpts{Disjoint: true, ThreadSeed: seed, MaxThreads: 3, MaxOps: 16,
			Record: func(th int, req, rep rc.Message) {
				if out[th] == nil {
					out[th] = &rec{}
					norms[th] = &normaliser{ids: map[uint64]uint64{}}
				}
				out[th].seq = append(out[th].seq, isoRec{norms[th].msg(req), norms[th].msg(rep)})
			}}
		if solo >= 0 {
			o.UseSolo, o.Solo = true, solo
		}
		runRandomWorkload(sub, o)
		return out, sub
	}
	conc, sub := run(-1, rcx.Sched)
	rcx.Res = sub.Res
	rcx.Findings = append(rcx.Findings, sub.Findings...)
	rcx.Counters = sub.Counters
	rcx.Label = "isolation " + sub.Label
	rcx.Sample = sub.Sample
	nthreads := len(conc)
	compared := 0
	for th := range conc {
		soloOut, ssub := run(th, simrt.NewTape(seed^uint64(th+1)))
		for _, f := range ssub.Findings {
			rcx.Findings = append(rcx.Findings, f)
		}
		a, b := soloOut[th], conc[th]
		if a == nil {
			continue
		}
		n := len(a.seq)
		if len(b.seq) < n {
			n = len(b.seq)
		}
		for i := 0; i < n; i++ {
			compared++
			if a.seq[i] != b.seq[i] {
				rcx.Find("C16", "isolation", "reply-differs", "client %d (own subtree /home%d, own fids) step %d: alone it saw %s -> %s, next to %d other clients it saw %s -> %s",
					th, th, i, a.seq[i].req, a.seq[i].rep, nthreads-1, b.seq[i].req, b.seq[i].rep)
				break
			}
		}
		if len(a.seq) != len(b.seq) && len(rcx.Findings) == 0 {
			rcx.Find("C16", "isolation", "length", "client %d completed %d requests alone but %d concurrently", th, len(a.seq), len(b.seq))
		}
	}
	rcx.Count("isolation.replies_compared", compared)
	if nthreads < 2 {
		rcx.Trivial = true
	}
}

func runC16(rcx *RunCtx) {
	if rcx.Index%3 == 2 {
		runIsolation(rcx)
		return
	}
	runRandomWorkload(rcx, workloadOpts{NoRename: rcx.Index%3 == 1, Xattr: true, MaxThreads: 4, MaxOps: 30, Large: rcx.Index%24 == 0})
}

func init() {
	Register(&Engine{
		ID:   "C16",
		Desc: "global progress, race freedom (race build) and isolation across concurrent sessions",
		Run:  runC16,
		Quick: 48000, Thorough: 1200000, QuickSecs: 60, ThorSecs: 1200,
		Rule:  "random concurrent workloads: 1-3 connections x 1-4 client threads each (one run in 24: 4-8 connections x 2-8 threads, up to 64 clients, 3-10 requests each; lock-step per thread, so one request outstanding per fid but many per connection), 4-34 requests per thread over walk/clone/open/read/write/create/mkdir/symlink/mknod/unlinkat/renameat/rename/remove/link/setattr/xattr/clunk on a shared tree (1/3 of runs without renames, 1/3 isolation runs on disjoint subtrees), schedulers: uniform / sticky / PCT, small reply pipes with a slow reader, random segmentation. Oracles: every request answered at quiescence, no deadlock (blocked-task report), no step-budget exhaustion, no panic at the top of a goroutine, no runtime abort; isolation: per-client reply sequences equal to the client's solo run on a fresh server; thorough tier repeats the workloads under the Go race detector. Non-trivial = >=2 backend calls in flight together.",
		Assume: []string{"clients keep at most one request outstanding per fid (as the statement requires)", "Tversion concurrent with other traffic is documented as unsafe and not generated", "race detection is limited to accesses unordered by p9's own synchronisation; weak-memory effects are out of reach"},
		Real:   []string{"p9.Server", "p9 path tree / fid table / handlers", "p9 wire codec"},
		Stub:   []string{"transport (simnet pipes)", "backend tree (simfs)", "raw 9P peer (refcodec)"},
		Owns:   []string{"C06"},
	})
}
