package sim

import (
	"fmt"

	rc "github.com/hugelgupf/p9/zzverif/refcodec"
	"github.com/hugelgupf/p9/zzverif/simfs"
	"github.com/hugelgupf/p9/zzverif/simnet"
	"github.com/hugelgupf/p9/zzverif/simrt"
)

// C05 — file lifecycle.  Oracles live in simfs (use-after-close, double-close,
// close-during-call, leak) and World.Collect (Handle returned, no server task
// left).  This engine supplies the histories, cut points and faults.

type script struct {
	Name string
	Msgs []rc.Message
}

func att(fid uint32) rc.Message {
	return &rc.Tattach{Fid: fid, Afid: rc.NoFid, Uname: "u", Aname: "", NUname: rc.NoUID}
}

// Short sessions covering every way a File is obtained or dropped.
var lifecycleScripts = []script{
	{"walk-open-read-clunk", []rc.Message{
		&rc.Tversion{Msize: 8192, Version: "9P2000.L.Google.7"}, att(0),
		&rc.Twalk{Fid: 0, NewFid: 1, Names: []string{"a", "b", "c"}},
		&rc.Tlopen{Fid: 1, Flags: 0}, &rc.Tread{Fid: 1, Offset: 0, Count: 10}, &rc.Tclunk{Fid: 1}, &rc.Tclunk{Fid: 0}}},
	{"failed-walk", []rc.Message{
		&rc.Tversion{Msize: 8192, Version: "9P2000.L"}, att(0),
		&rc.Twalk{Fid: 0, NewFid: 1, Names: []string{"a", "b", "nope", "x"}},
		&rc.Twalk{Fid: 0, NewFid: 1, Names: []string{"b", "x"}},
		&rc.Twalkgetattr{Fid: 0, NewFid: 2, Names: []string{"a", "nope"}},
		&rc.Tclunk{Fid: 1}}},
	{"fid-replacement", []rc.Message{
		&rc.Tversion{Msize: 8192, Version: "9P2000.L.Google.7"}, att(0),
		&rc.Twalk{Fid: 0, NewFid: 1, Names: []string{"a"}},
		&rc.Twalk{Fid: 0, NewFid: 1, Names: []string{"d"}},
		&rc.Twalk{Fid: 1, NewFid: 1, Names: []string{"a"}},
		att(1), att(0),
		&rc.Twalk{Fid: 0, NewFid: 0}}},
	{"create-rebind", []rc.Message{
		&rc.Tversion{Msize: 8192, Version: "9P2000.L.Google.7"}, att(0),
		&rc.Twalk{Fid: 0, NewFid: 1, Names: []string{"d"}},
		&rc.Tlcreate{Fid: 1, Name: "new", Flags: 2, Mode: 0o644},
		&rc.Twrite{Fid: 1, Offset: 0, Data: []byte("hello")},
		&rc.Twalk{Fid: 0, NewFid: 2, Names: []string{"d"}},
		&rc.Tucreate{Tlcreate: rc.Tlcreate{Fid: 2, Name: "new2", Flags: 1, Mode: 0o600}, UID: 7},
		&rc.Tclunk{Fid: 1}}},
	{"xattr-fids", []rc.Message{
		&rc.Tversion{Msize: 8192, Version: "9P2000.L.Google.7"}, att(0),
		&rc.Twalk{Fid: 0, NewFid: 1, Names: []string{"b"}},
		&rc.Txattrwalk{Fid: 1, NewFid: 2, Name: "user.x"},
		&rc.Tread{Fid: 2, Offset: 0, Count: 2},
		&rc.Tclunk{Fid: 2},
		&rc.Tgetattr{Fid: 1, Mask: rc.GetattrAll},
		&rc.Txattrwalk{Fid: 1, NewFid: 3, Name: ""},
		&rc.Twalk{Fid: 0, NewFid: 4, Names: []string{"b"}},
		&rc.Txattrcreate{Fid: 4, Name: "user.y", AttrSize: 3, Flags: 0},
		&rc.Twrite{Fid: 4, Offset: 0, Data: []byte("abc")},
		&rc.Tclunk{Fid: 4},
		&rc.Tclunk{Fid: 1}}},
	{"rename-unlink-referenced", []rc.Message{
		&rc.Tversion{Msize: 8192, Version: "9P2000.L.Google.7"}, att(0),
		&rc.Twalk{Fid: 0, NewFid: 1, Names: []string{"a", "b", "c"}},
		&rc.Twalk{Fid: 0, NewFid: 2, Names: []string{"a"}},
		&rc.Twalk{Fid: 0, NewFid: 3, Names: []string{"d"}},
		&rc.Trenameat{OldDirFid: 2, OldName: "b", NewDirFid: 3, NewName: "bb"},
		&rc.Tgetattr{Fid: 1, Mask: rc.GetattrAll},
		&rc.Tunlinkat{DirFid: 3, Name: "b"},
		&rc.Trename{Fid: 1, Dfid: 0, Name: "top"},
		&rc.Tremove{Fid: 1},
		&rc.Tclunk{Fid: 2}}},
	{"clone-and-remove", []rc.Message{
		&rc.Tversion{Msize: 8192, Version: "9P2000.L.Google.7"}, att(0),
		&rc.Twalk{Fid: 0, NewFid: 1, Names: []string{"b"}},
		&rc.Twalk{Fid: 1, NewFid: 2},
		&rc.Twalkgetattr{Fid: 1, NewFid: 3},
		&rc.Tlopen{Fid: 2, Flags: 2},
		&rc.Tremove{Fid: 1},
		&rc.Tread{Fid: 2, Offset: 0, Count: 5},
		&rc.Tremove{Fid: 3},
		&rc.Tremove{Fid: 0}}},
}

func scriptBytes(s script) ([]byte, []int) {
	var b []byte
	var ends []int
	for i, m := range s.Msgs {
		tag := uint16(i + 1)
		if _, ok := m.(*rc.Tversion); ok {
			tag = rc.NoTag
		}
		b = append(b, rc.Encode(tag, m)...)
		ends = append(ends, len(b))
	}
	return b, ends
}

type cutCase struct {
	script int
	cut    int // byte offset at which the request stream ends
	parked int // how many backend calls are parked across the cut
	deadRx bool
}

var cutCatalogue []cutCase

func init() {
	for si, s := range lifecycleScripts {
		b, _ := scriptBytes(s)
		for k := 0; k <= len(b); k++ {
			cutCatalogue = append(cutCatalogue, cutCase{si, k, k % 3, (k/3)%2 == 1})
		}
	}
}

func runCut(rcx *RunCtx, cc cutCase) {
	s := lifecycleScripts[cc.script]
	b, ends := scriptBytes(s)
	rcx.Label = fmt.Sprintf("cut %s", s.Name)
	cfg := simCfg(rcx)
	p := rcx.Plan
	wga := p.Choose(2) == 1
	seg := []int{simnet.SegWhole, simnet.SegRandom, simnet.SegByte}[p.Choose(3)]
	lockstep := p.Choose(2) == 1
	errAt := -1
	if p.Choose(3) == 0 {
		errAt = p.Choose(40)
	}
	rcx.Sample = map[string]interface{}{"script": s.Name, "cut_at_byte": cc.cut, "of_bytes": len(b), "parked_calls": cc.parked, "reply_direction_dead": cc.deadRx, "lockstep": lockstep, "backend_error_at_call": errAt}
	rcx.Res = simrt.Run(cfg, rcx.Sched, func() {
		fs := simfs.New()
		fs.WalkGetAttrENOSYS = wga
		buildWorkloadTree(fs, 1, false)
		fs.Lookup("/b").SetXattrDirect("user.x", []byte("xv"))
		w := NewWorld(nil, fs)
		c := w.Connect()
		c.Net.C2S.Seg = seg
		c.Net.C2S.ReadEOFAt = int64(cc.cut)
		var parked []*simfs.Call
		nparked := 0
		holdFrom := 0
		if cc.parked > 0 {
			holdFrom = 2 + simrt.Choose(12)
		}
		fs.Hold = func(call *simfs.Call) bool {
			if nparked < cc.parked && call.Seq >= holdFrom && call.Method != "Renamed" {
				nparked++
				parked = append(parked, call)
				return true
			}
			return false
		}
		if errAt >= 0 {
			fs.FaultFn = func(call *simfs.Call) *simfs.Fault {
				if call.Seq == errAt && call.Method != "Renamed" {
					return &simfs.Fault{Err: injectedErrs[call.Seq%len(injectedErrs)]}
				}
				return nil
			}
		}
		if cc.deadRx {
			c.Net.S2C.WriteErrAfter = 1 + simrt.Choose(6)
		}
		if lockstep {
			// send frame by frame, waiting for each reply as long as the server answers
			prev := 0
			for i, e := range ends {
				c.SendRaw(b[prev:e])
				prev = e
				_ = i
				simrt.WaitQuiescent()
			}
		} else {
			c.SendRaw(b)
			simrt.WaitQuiescent()
		}
		rcx.Count("cut.parked_at_cut", len(parked))
		// while calls are parked the server must not have finished the connection
		if len(parked) > 0 && c.HandleReturned {
			rcx.Find("C05", "handle-returned-early", "parked", "Server.Handle returned while %d backend call(s) of the connection were still running", len(parked))
		}
		// release in tape order
		for len(parked) > 0 {
			i := simrt.Choose(len(parked))
			parked[i].Release()
			parked = append(parked[:i], parked[i+1:]...)
			simrt.WaitQuiescent()
		}
		fs.Hold = nil
		w.Shutdown()
		rcx.Findings = append(rcx.Findings, w.Findings...)
		rcx.Count("backend.calls", fs.NCalls)
		rcx.Count("handles", len(fs.Handles))
	})
	finishRun(rcx)
}

func init() {
	Register(&Engine{
		ID:   "C05",
		Desc: "file lifecycle: every File closed exactly once, never used after Close, also on disconnect at any byte",
		Run: func(rcx *RunCtx) {
			if rcx.Index < len(cutCatalogue) {
				runCut(rcx, cutCatalogue[rcx.Index])
				return
			}
			if k := rcx.Index - len(cutCatalogue); k < createRaceCount() {
				// the File of a fid that the path tree lost is leaked when
				// the fid is cloned (found by a thorough run of this check)
				runCreateRace(rcx, k)
				return
			} else if k -= createRaceCount(); k < replaceRaceCount() {
				runReplaceRace(rcx, k)
				return
			}
			if rcx.Plan.Choose(4) == 0 {
				// a pair of the directed catalogue (A parked in the backend, B
				// issued, A released) under a tape-chosen schedule, run to
				// the end of the connection
				runPair(rcx, pairCatalogue[rcx.Plan.Choose(len(pairCatalogue))])
				return
			}
			runRandomWorkload(rcx, workloadOpts{Cut: true, Faults: rcx.Plan.Choose(2) == 1, ErrOnly: true, Xattr: true})
		},
		Directed: func(string) int { return len(cutCatalogue) + createRaceCount() + replaceRaceCount() },
		Quick:    32000, Thorough: 1800000, QuickSecs: 60, ThorSecs: 1500,
		Rule: "directed: (a) 7 short sessions covering every way a File is obtained or dropped (multi-step and failed walks, fid replacement, create rebinding, xattr fids, rename/unlink/remove of referenced entries, clones) x request stream cut after EVERY byte offset x {0,1,2} backend calls parked across the cut x reply direction alive/dead x lock-step or pipelined delivery x optional backend error at a call index; (b) create-race: a Tlcreate parked in the backend while a rename / replace / unlink of the name it creates queues behind it, 6 kinds x same/other connection x 48 schedules, the created fid then probed, cloned and moved; (c) replace-race: a Twalk onto a bound fid number parked in the displaced File's Close while a clunk / getattr / clone / remove / second walk on that fid number is issued, 24 schedules each; random: 3/4 concurrent workloads with a tape-chosen cut and faults, 1/4 a pair of the C06/C07 catalogue (A parked in its backend call, B issued, A released) under a tape-chosen schedule with clone/getattr probes of every fid afterwards. Oracle: per-handle lifecycle counters in the backend (Close count = 1 at the end, no call after Close, no Close while a call on the handle runs), Server.Handle returned, scheduler task table has no server task left. Distinct = (scenario label, schedule fingerprint).",
		Assume: []string{"a File's Close counts even when it returns an injected error", "panics in Close during teardown are outside the statement and not injected"},
		Real:   []string{"p9.Server", "p9 path tree / fid table / handlers", "p9 wire codec"},
		Stub:   []string{"transport (simnet pipes)", "backend tree (simfs)", "raw 9P peer (refcodec)"},
	})
}
