package sim

import (
	"fmt"
	"strconv"
	"strings"

	rc "github.com/hugelgupf/p9/zzverif/refcodec"
	"github.com/hugelgupf/p9/zzverif/simfs"
	"github.com/hugelgupf/p9/zzverif/simrt"
)

// C12 — version and msize negotiation.  Input/configuration property; the
// simulator is the vehicle.  Server side: the full cross product of msize
// values x version strings through a raw Tversion.  Client side (see
// c12client.go): NewClient against fake servers that lower msize and/or
// version, answer other dialects, garbage, Rlerror(EAGAIN) k times.

var c12Msizes = []uint32{0, 1, 6, 7, 23, 153, 154, 4096, 65536, 4<<20 - 1, 4 << 20, 4<<20 + 1, 1 << 31, 0xFFFFFFFF}

var c12Versions = []string{
	"9P2000.L", "9P2000.L.Google.0", "9P2000.L.Google.1", "9P2000.L.Google.2", "9P2000.L.Google.3", "9P2000.L.Google.6",
	"9P2000.L.Google.7", "9P2000.L.Google.8", "9P2000.L.Google.9", "9P2000.L.Google.12", "9P2000.L.Google.007",
	"9P2000.L.Google.4294967295", "9P2000.L.Google.4294967296", "9P2000.L.Google.99999999999999999999",
	"9P2000.L.Google.+1", "9P2000.L.Google.-1", "9P2000.L.Google.", "9P2000.L.Google", "9P2000.L.Google.1.2", "9P2000.L.Google.1x",
	"9P2000.L.google.1", "9P2000.L.", "9P2000.L.1", "", "9P2000", "9P2000.u", "9p2000.l", "9P2000.L ", " 9P2000.L", "9P2000.L\x00",
	"unknown", "9P2000.N", "\xff\xfe", "9P2000.L.Google.١", strings.Repeat("9", 300),
}

// refNegotiate is the statement of C12, executable: it returns every Rversion
// the statement allows for a request.
func refNegotiate(msize uint32, version string) []rc.Rversion {
	unknown := rc.Rversion{Msize: 0, Version: "unknown"}
	if msize == 0 {
		return []rc.Rversion{unknown}
	}
	m := msize
	if m > 4<<20 {
		m = 4 << 20
	}
	canon := func(n uint64) rc.Rversion {
		if n > 7 {
			n = 7
		}
		if n == 0 {
			return rc.Rversion{Msize: m, Version: "9P2000.L"}
		}
		return rc.Rversion{Msize: m, Version: "9P2000.L.Google." + strconv.FormatUint(n, 10)}
	}
	if version == "9P2000.L" {
		return []rc.Rversion{canon(0)}
	}
	const pfx = "9P2000.L.Google."
	if !strings.HasPrefix(version, pfx) {
		return []rc.Rversion{unknown}
	}
	digits := version[len(pfx):]
	if digits == "" {
		return []rc.Rversion{unknown}
	}
	plain := true
	for _, c := range []byte(digits) {
		if c < '0' || c > '9' {
			plain = false
		}
	}
	if !plain {
		// "+1": a sign is not a digit; whether that is "of the form" is left open
		if digits[0] == '+' && len(digits) > 1 {
			if n, err := strconv.ParseUint(digits[1:], 10, 64); err == nil {
				return []rc.Rversion{unknown, canon(n)}
			}
		}
		return []rc.Rversion{unknown}
	}
	n, err := strconv.ParseUint(digits, 10, 32)
	if err != nil {
		// N does not fit 32 bits: not of the form, or min(N,7) — both readings accepted
		return []rc.Rversion{unknown, canon(8)}
	}
	if len(digits) > 1 && digits[0] == '0' {
		return []rc.Rversion{canon(n), unknown}
	}
	return []rc.Rversion{canon(n)}
}

func c12Cases() int { return len(c12Msizes) * len(c12Versions) }

func runC12(rcx *RunCtx) {
	if rcx.Index >= c12Cases() && rcx.Index%2 == 1 {
		runC12Client(rcx)
		return
	}
	cfg := simCfg(rcx)
	var msize uint32
	var version string
	if rcx.Index < c12Cases() {
		msize = c12Msizes[rcx.Index%len(c12Msizes)]
		version = c12Versions[rcx.Index/len(c12Msizes)]
		rcx.Label = "server cross-product"
	} else {
		p := rcx.Plan
		msize = []uint32{0, 1, 7, 8192, 4 << 20, 4<<20 + 1, 0xFFFFFFFF}[p.Choose(7)] + uint32(p.Choose(3))
		pieces := []string{"9P2000", ".L", ".Google", ".", "7", "8", "0", "00", "4294967295", "4294967296", "u", "x", "-", "+", " ", "\x00"}
		n := 1 + p.Choose(6)
		for i := 0; i < n; i++ {
			version += pieces[p.Choose(len(pieces))]
		}
		rcx.Label = "server random"
	}
	midSession := rcx.Plan.Choose(2) == 1
	rcx.Sample = map[string]interface{}{"msize": msize, "version": fmt.Sprintf("%q", trunc(version, 60)), "mid_session": midSession}
	rcx.Res = simrt.Run(cfg, rcx.Sched, func() {
		fs := simfs.New()
		c04Tree(fs)
		w := NewWorld(nil, fs)
		c := w.Connect()
		if midSession {
			if !c.Start(8192, "9P2000.L.Google.5") {
				rcx.Find("C12", "setup", "setup", "setup failed")
				return
			}
		}
		req := c.Send(rc.NoTag, &rc.Tversion{Msize: msize, Version: version})
		simrt.WaitQuiescent()
		if req.Reply == nil {
			rcx.Find("C12", "no-reply", "Tversion", "Tversion{%d %q} was not answered", msize, trunc(version, 60))
			return
		}
		rv, ok := req.Reply.Msg.(*rc.Rversion)
		if !ok {
			rcx.Find("C12", "not-rversion", "Tversion", "Tversion{%d %q} answered by %s; it must always get an Rversion", msize, trunc(version, 60), rc.String(req.Reply.Msg))
			return
		}
		allowed := refNegotiate(msize, version)
		good := false
		for _, a := range allowed {
			if a == *rv {
				good = true
			}
		}
		if !good {
			rcx.Find("C12", "wrong-rversion", "Tversion", "Tversion{msize %d, %q}: got Rversion{%d %q}, the rule allows %v", msize, trunc(version, 60), rv.Msize, rv.Version, allowed)
		}
		if rv.Version == "unknown" {
			// a refusal changes nothing: the peer may try again, and "a
			// Tversion always gets an Rversion"
			retry := c.Send(rc.NoTag, &rc.Tversion{Msize: 8192, Version: "9P2000.L"})
			simrt.WaitQuiescent()
			if retry.Reply == nil {
				rcx.Find("C12", "no-reply", "retry", "after Tversion{%d %q} was refused, a plain Tversion{8192 9P2000.L} was not answered", msize, trunc(version, 60))
			} else if r2, ok := retry.Reply.Msg.(*rc.Rversion); !ok || r2.Msize != 8192 || r2.Version != "9P2000.L" {
				rcx.Find("C12", "wrong-rversion", "retry", "after Tversion{%d %q} was refused, Tversion{8192 9P2000.L} got %s", msize, trunc(version, 60), rc.String(retry.Reply.Msg))
			}
			rcx.Count("refused_then_retried", 1)
		}
		// the announced version parses back to the same number
		if rv.Version != "unknown" {
			back := refNegotiate(rv.Msize, rv.Version)
			if len(back) == 0 || back[0] != *rv {
				rcx.Find("C12", "not-canonical", "Tversion", "announced version %q does not negotiate to itself", rv.Version)
			}
			// and the connection works at the announced msize
			if !midSession {
				if _, ok := c.Attach(0, "").(*rc.Rattach); !ok && rv.Msize >= 64 {
					rcx.Find("C12", "unusable-after-negotiation", "attach", "attach failed after Rversion{%d %q}", rv.Msize, rv.Version)
				}
			}
		}
		w.Shutdown()
		rcx.Findings = append(rcx.Findings, w.Findings...)
	})
	finishRun(rcx)
}

func trunc(s string, n int) string {
	if len(s) > n {
		return s[:n] + "..."
	}
	return s
}

func init() {
	Register(&Engine{
		ID:   "C12",
		Desc: "version and msize negotiation (server: raw Tversion cross product; client: NewClient against fake servers)",
		Run:  runC12,
		Directed: func(string) int { return c12Cases() },
		Quick:    24000, Thorough: 3000000, QuickSecs: 60, ThorSecs: 900,
		Rule:  fmt.Sprintf("server: full cross product of %d msize values (0, 1, <header, 154, 4 MiB+-1, 2^31, 2^32-1) x %d version strings (every N incl. leading zeros, 32-bit overflow, signs, extra dots, case, trailing bytes, other dialects, arbitrary bytes), fresh and mid-session, every refusal followed by a plain retry that must be answered, plus random strings from version-like pieces; client: all pairs (requested, offered) with fake servers that lower msize and/or version, answer unknown / other dialects / garbage, Rlerror(EAGAIN) k times or another Rlerror. Oracle: an executable ten-line reference of the statement's rule (both readings accepted where the statement leaves N's form open); reply never Rlerror; announced version re-negotiates to itself; client: NewClient fails for non-9P2000.L replies, else Version() = offered and every later frame fits the offered msize and uses only message types of the offered version. Input/configuration property: the search is over values, not schedules.", len(c12Msizes), len(c12Versions)),
		Real:  []string{"p9.Server (tversion.handle, parseVersion)", "p9.NewClient", "p9 wire codec"},
		Stub:  []string{"transport (simnet pipes)", "raw 9P peer / fake server (refcodec)", "backend tree (simfs)"},
	})
}
