package sim

import (
	"bytes"
	"errors"
	"fmt"
	"io"
	"os"
	"reflect"
	"strings"
	"syscall"

	"github.com/hugelgupf/p9/linux"
	"github.com/hugelgupf/p9/p9"
	rc "github.com/hugelgupf/p9/zzverif/refcodec"
	"github.com/hugelgupf/p9/zzverif/simfs"
	"github.com/hugelgupf/p9/zzverif/simnet"
	"github.com/hugelgupf/p9/zzverif/simrt"
)

// C03 — client/server transparency for every File operation at every version
// (engine E3: real client, real server, scripted backend).  Input /
// configuration property: the simulator is the vehicle.

// every error shape a backend may return
var c03Errors = []error{
	linux.EPERM, linux.ENOENT, linux.EIO, linux.EACCES, linux.EEXIST, linux.ENOTDIR, linux.EISDIR, linux.EINVAL, linux.ENOSPC, linux.EROFS,
	linux.ENOTEMPTY, linux.ENODATA, linux.ENAMETOOLONG, linux.ELOOP, linux.EAGAIN, linux.EBUSY, linux.ENOSYS, linux.Errno(122), linux.Errno(1), linux.Errno(133),
	syscall.EPERM, syscall.ENOENT, syscall.EACCES, syscall.EEXIST, syscall.ENOTEMPTY, syscall.EINVAL, syscall.EMFILE, syscall.EXDEV, syscall.ESTALE,
	// errnos with a second meaning in Go: syscall.Errno has Timeout() and
	// Temporary() methods that answer true for these
	syscall.EAGAIN, syscall.EWOULDBLOCK, syscall.ETIMEDOUT, syscall.EINTR, syscall.ENFILE,
	&os.PathError{Op: "read", Path: "/x", Err: syscall.EAGAIN},
	&os.SyscallError{Syscall: "read", Err: syscall.ETIMEDOUT},
	fmt.Errorf("wrapped: %w", syscall.EINTR),
	os.ErrDeadlineExceeded,
	os.ErrNotExist, os.ErrExist, os.ErrPermission, os.ErrInvalid,
	&os.PathError{Op: "open", Path: "/x", Err: syscall.EPERM},
	&os.PathError{Op: "rmdir", Path: "/x", Err: syscall.ENOTEMPTY},
	&os.PathError{Op: "open", Path: "/x", Err: linux.ENXIO},
	&os.LinkError{Op: "rename", Old: "a", New: "b", Err: syscall.EXDEV},
	&os.SyscallError{Syscall: "fsync", Err: syscall.EIO},
	fmt.Errorf("layer 2: %w", fmt.Errorf("layer 1: %w", linux.EDQUOT)),
	fmt.Errorf("wrapped: %w", syscall.ENOTEMPTY),
	fmt.Errorf("wrapped os: %w", os.ErrPermission),
	errors.New("opaque backend failure"),
	errors.Join(errors.New("first"), linux.EFBIG),
}

type gen struct {
	ch      func(int) int
	extreme bool
}

func (g *gen) u32() uint32 {
	if g.extreme {
		return []uint32{0, 1, 2, 0x7F, 0x80, 0xFF, 0x100, 0x7FFF, 0x8000, 0xFFFF, 0x10000, 0x7FFFFFFF, 0x80000000, 0xFFFFFFFE, 0xFFFFFFFF}[g.ch(15)]
	}
	return uint32(g.ch(1 << 20))
}

func (g *gen) u64() uint64 {
	if g.extreme {
		return []uint64{0, 1, 0xFF, 0xFFFF, 0xFFFFFFFF, 0x100000000, 0x7FFFFFFFFFFFFFFF, 0x8000000000000000, 0xFFFFFFFFFFFFFFFE, 0xFFFFFFFFFFFFFFFF, 1 << 39, 1<<62 + 5}[g.ch(12)]
	}
	return uint64(g.ch(1<<30)) * 3
}

func (g *gen) name() string {
	if g.extreme {
		switch g.ch(8) {
		case 0:
			return "x"
		case 1:
			return strings.Repeat("n", 255)
		case 2:
			return "nul\x00inside"
		case 3:
			return "\xff\xfe\x80high"
		case 4:
			return strings.Repeat("L", 4000)
		case 5:
			return "..a"
		case 6:
			return "sp ace\ttab\n"
		}
	}
	return fmt.Sprintf("f%d", g.ch(10000))
}

func (g *gen) text() string {
	if g.extreme {
		switch g.ch(6) {
		case 0:
			return ""
		case 1:
			return "/"
		case 2:
			return "../../a/./b//c"
		case 3:
			return strings.Repeat("t", 6000)
		case 4:
			return "bin\x00\xff"
		}
	}
	return fmt.Sprintf("target/%d", g.ch(1000))
}

func (g *gen) qid() p9.QID {
	return p9.QID{Type: p9.QIDType(g.u32()), Version: g.u32(), Path: g.u64()}
}

func (g *gen) attr() p9.Attr {
	return p9.Attr{Mode: p9.FileMode(g.u32()), UID: p9.UID(g.u32()), GID: p9.GID(g.u32()), NLink: p9.NLink(g.u64()), RDev: p9.Dev(g.u64()), Size: g.u64(), BlockSize: g.u64(), Blocks: g.u64(),
		ATimeSeconds: g.u64(), ATimeNanoSeconds: g.u64(), MTimeSeconds: g.u64(), MTimeNanoSeconds: g.u64(), CTimeSeconds: g.u64(), CTimeNanoSeconds: g.u64(),
		BTimeSeconds: g.u64(), BTimeNanoSeconds: g.u64(), Gen: g.u64(), DataVersion: g.u64()}
}

func (g *gen) mask() p9.AttrMask   { return maskFromRC(uint64(g.ch(1 << 14))) }
func (g *gen) smask() p9.SetAttrMask { return setMaskFromRC(uint32(g.ch(1 << 9))) }

type c03World struct {
	e    *E3
	fs   *simfs.FS
	rcx  *RunCtx
	prop string
	g    *gen
	hof  map[p9.File]*simfs.Handle // client file -> backend handle it was derived from
	ver  int
	// scripting
	errFor    string // backend method to fail next
	errVal    error
	scriptFor string
	script    func(c *simfs.Call)
	nops      int
	nerr      int
	closing   int // Close calls running in tasks of their own
}

func (w *c03World) find(oracle, key, format string, args ...interface{}) {
	w.rcx.Find(w.prop, oracle, key, format, args...)
}

var errNoCall = errors.New("no backend call")

func cerr(c *simfs.Call) error {
	if c == nil {
		return errNoCall // rejected before reaching the backend (fenced fid etc.): C04/C08's business
	}
	return c.Err
}

func lastHandle(calls []*simfs.Call) *simfs.Handle {
	for i := len(calls) - 1; i >= 0; i-- {
		if calls[i].RFile != nil && calls[i].Err == nil {
			return calls[i].RFile
		}
	}
	return nil
}

// errCheck: the caller gets the errno the statement prescribes.
func (w *c03World) errCheck(what string, got error, backendErr error) bool {
	if got != nil && strings.Contains(got.Error(), "socket error") {
		w.find("connection-lost", "transport", "%s failed with a connection error in a fault-free run: %v", what, got)
		return false
	}
	if backendErr == errNoCall {
		return false
	}
	if backendErr == nil {
		if got != nil {
			w.find("spurious-error", what, "%s returned %v although the backend call succeeded", what, got)
		}
		return got == nil
	}
	w.nerr++
	want := errnoOf(backendErr)
	if got == nil {
		w.find("error-lost", what, "backend %s failed with %v (%T) but the client call returned nil", what, backendErr, backendErr)
		return false
	}
	if g := errnoOf(got); g != want {
		w.find("wrong-errno", fmt.Sprintf("%d->%d", want, g), "backend %s failed with %v (%T): the caller must see errno %d, got %v (errno %d)", what, backendErr, backendErr, want, got, g)
	}
	return false
}

// arm prepares error injection / result scripting for the next call of method.
func (w *c03World) arm(method string, canEOF bool, script func(c *simfs.Call)) (injected error) {
	w.errFor, w.errVal = "", nil
	w.scriptFor, w.script = method, script
	if w.g.ch(3) == 0 {
		w.errFor = method
		w.errVal = c03Errors[w.g.ch(len(c03Errors))]
		if method == "WalkGetAttr" && errnoOf(w.errVal) == ENOSYS {
			w.errVal = linux.EIO // ENOSYS from WalkGetAttr legitimately means "use Walk and GetAttr"
		}
		if canEOF && w.g.ch(6) == 0 {
			w.errVal = io.EOF
		}
		return w.errVal
	}
	return nil
}

func (w *c03World) call(method string, calls []*simfs.Call) *simfs.Call {
	for _, c := range calls {
		if c.Method == method {
			return c
		}
	}
	return nil
}

func (w *c03World) onHandle(what string, c *simfs.Call, f p9.File, err error) {
	if c == nil {
		// The server may refuse a request in the handle's state (the caller
		// then gets that error), but success without the backend having been
		// asked is an answer the File never gave.
		if err == nil {
			w.find("not-forwarded", what, "%s returned success to the caller but never reached the backend", what)
		} else if errnoOf(err) == EBADF && w.errFor == "" {
			// the server does not know the fid of a handle the client holds
			w.find("handle-lost", what, "%s on a live client handle was refused with EBADF: the server has no such fid any more", what)
		}
		return
	}
	if want := w.hof[f]; want != nil && c.H != want {
		w.find("wrong-file", what, "%s reached backend handle %d (%s), the client File was derived from handle %d (%s)", what, c.H.ID, c.H.Path(), want.ID, want.Path())
	}
}

func (w *c03World) uidgid(uid p9.UID, gid p9.GID) (p9.UID, p9.GID) {
	if w.ver < 3 {
		return p9.NoUID, p9.NoGID
	}
	return uid, gid
}

func (w *c03World) op(files *[]p9.File) {
	g := w.g
	fs := w.fs
	w.nops++
	f := (*files)[g.ch(len(*files))]
	mark := len(fs.Calls)
	calls := func() []*simfs.Call { return fs.Calls[mark:] }
	sel := g.ch(26)
	if sel == 25 {
		// Close: what the File's Close returns is what the caller gets
		if len(*files) > 1 {
			i := 1 + g.ch(len(*files)-1)
			cf := (*files)[i]
			*files = append(append([]p9.File{}, (*files)[:i]...), (*files)[i+1:]...)
			be := w.arm("Close", false, nil)
			err := cf.Close()
			w.errFor = ""
			if be != nil {
				var closed *simfs.Call
				for _, cl := range calls() {
					// (the fault may have hit the Close of another File that a
					// concurrent closer was dropping: then there is nothing to say)
					if cl.Method == "Close" && cl.Err == be && cl.H == w.hof[cf] {
						closed = cl
					}
				}
				if closed != nil && errnoOf(err) != errnoOf(be) {
					w.find("wrong-errno", "Close", "the File's Close failed with %v (%T): the caller must see errno %d, got %v", be, be, errnoOf(be), err)
				}
			}
		}
		return
	}
	if sel == 24 {
		// Close one of the handles in a task of its own while the calls
		// below go on: the handles they produce are theirs, whatever fid
		// numbers the client recycles meanwhile.
		if len(*files) > 1 {
			i := 1 + g.ch(len(*files)-1)
			cf := (*files)[i]
			*files = append(append([]p9.File{}, (*files)[:i]...), (*files)[i+1:]...)
			w.closing++
			simrt.GoNamed("closer", func() {
				cf.Close()
				w.closing--
			})
		}
		return
	}
	switch sel {
	case 0:
		mask := g.mask()
		sq, sv, sa := g.qid(), g.mask(), g.attr()
		be := w.arm("GetAttr", false, func(c *simfs.Call) { c.RQID, c.RValid, c.RAttr = sq, sv, sa })
		_ = be
		q, v, a, err := f.GetAttr(mask)
		c := w.call("GetAttr", calls())
		w.onHandle("GetAttr", c, f, err)
		if c != nil && c.Mask != mask {
			w.find("wrong-args", "GetAttr", "GetAttr mask %+v reached the backend as %+v", mask, c.Mask)
		}
		if w.errCheck("GetAttr", err, cerr(c)) && (q != sq || v != sv || a != sa) {
			w.find("wrong-result", "GetAttr", "backend returned (%v, %v, %+v), the caller got (%v, %v, %+v)", sq, sv, sa, q, v, a)
		}
	case 1:
		valid, attr := g.smask(), p9.SetAttr{Permissions: p9.FileMode(g.u32()), UID: p9.UID(g.u32()), GID: p9.GID(g.u32()), Size: g.u64(), ATimeSeconds: g.u64(), ATimeNanoSeconds: g.u64(), MTimeSeconds: g.u64(), MTimeNanoSeconds: g.u64()}
		be := w.arm("SetAttr", false, nil)
		_ = be
		err := f.SetAttr(valid, attr)
		c := w.call("SetAttr", calls())
		w.onHandle("SetAttr", c, f, err)
		want := attr
		want.Permissions &= 0o7777
		if c != nil && (c.SetMask != valid || c.SetAttr != want) {
			w.find("wrong-args", "SetAttr", "SetAttr(%+v, %+v) reached the backend as (%+v, %+v)", valid, attr, c.SetMask, c.SetAttr)
		}
		w.errCheck("SetAttr", err, cerr(c))
	case 2, 3:
		var names []string
		for k := g.ch(4); k > 0; k-- {
			names = append(names, []string{"a", "d", "b", "sub", "nope"}[g.ch(5)])
		}
		qs, nf, err := f.Walk(names)
		w.e.Hold(nf)
		var got []string
		var qwant []p9.QID
		var berr error
		for _, c := range calls() {
			if (c.Method == "Walk" || c.Method == "WalkGetAttr") && len(c.Names) > 0 {
				got = append(got, c.Names...)
				qwant = append(qwant, c.RQIDs...)
			}
			if c.Err != nil && c.Method != "Close" {
				berr = c.Err
			}
		}
		if len(got) > len(names) || strings.Join(got, "\x01") != strings.Join(names[:min(len(got), len(names))], "\x01") {
			w.find("wrong-args", "Walk", "Walk(%q) reached the backend as component walks %q", names, got)
		}
		if err == nil {
			if len(qs) != len(names) || (len(names) > 0 && !reflect.DeepEqual(qs, qwant)) {
				w.find("wrong-result", "Walk", "Walk(%q): backend QIDs %v, caller got %v", names, qwant, qs)
			}
			if h := lastHandle(calls()); h != nil && nf != nil {
				w.hof[nf] = h
				*files = append(*files, nf)
			}
		} else if berr != nil && errnoOf(err) != errnoOf(berr) && errnoOf(err) != EINVAL {
			w.find("wrong-errno", "Walk", "Walk(%q): backend error %v, caller got %v", names, berr, err)
		}
	case 4:
		fl := p9.OpenFlags(g.ch(3))
		if g.extreme {
			fl |= p9.OpenFlags(g.u32() &^ 3)
		}
		sq, sio := g.qid(), g.u32()
		be := w.arm("Open", false, func(c *simfs.Call) { c.RQID, c.RIoUnit = sq, sio })
		_ = be
		q, io, err := f.Open(fl)
		c := w.call("Open", calls())
		w.onHandle("Open", c, f, err)
		if c != nil && c.Flags != uint32(fl) {
			w.find("wrong-args", "Open", "Open(%#x) reached the backend as %#x", fl, c.Flags)
		}
		if c != nil && w.errCheck("Open", err, cerr(c)) && (q != sq || io != sio) {
			w.find("wrong-result", "Open", "backend returned (%v, %d), caller got (%v, %d)", sq, sio, q, io)
		}
	case 5:
		p := make([]byte, g.ch(300))
		off := int64(g.u64() >> 1)
		if !g.extreme {
			off = int64(g.ch(50))
		}
		be := w.arm("ReadAt", true, nil)
		_ = be
		n, err := f.ReadAt(p, off)
		c := w.call("ReadAt", calls())
		w.onHandle("ReadAt", c, f, err)
		if c != nil {
			if c.Offset != uint64(off) || int(c.Count) != len(p) {
				w.find("wrong-args", "ReadAt", "ReadAt(len %d, off %d) reached the backend as (n %d, off %d)", len(p), off, c.Count, c.Offset)
			}
			if c.Err == nil || isEOF(c.Err) {
				if n != c.RN || !bytes.Equal(p[:n], c.RData[:n]) {
					w.find("wrong-result", "ReadAt", "backend produced %d bytes, caller got %d", c.RN, n)
				}
				if err != nil && err != io.EOF {
					w.find("spurious-error", "ReadAt", "ReadAt returned %v although the backend returned (%d, %v)", err, c.RN, c.Err)
				}
				if len(p) > 0 && n == 0 && err != io.EOF {
					w.find("missing-eof", "ReadAt", "ReadAt delivered 0 bytes of %d without io.EOF (err %v)", len(p), err)
				}
			} else {
				w.errCheck("ReadAt", err, cerr(c))
			}
		}
	case 6:
		p := nbytes(uint64(g.ch(99)), g.ch(300))
		off := int64(g.ch(50))
		be := w.arm("WriteAt", false, nil)
		_ = be
		n, err := f.WriteAt(p, off)
		c := w.call("WriteAt", calls())
		w.onHandle("WriteAt", c, f, err)
		if c != nil {
			if c.Offset != uint64(off) || !bytes.Equal(c.Data, p) {
				w.find("wrong-args", "WriteAt", "WriteAt(%d bytes, off %d) reached the backend as (%d bytes, off %d)", len(p), off, len(c.Data), c.Offset)
			}
			if w.errCheck("WriteAt", err, cerr(c)) && n != c.RN {
				w.find("wrong-result", "WriteAt", "backend wrote %d, caller got %d", c.RN, n)
			}
		}
	case 7:
		off, cnt := uint64(g.ch(5)), uint32(30+g.ch(3000))
		var sd p9.Dirents
		for i := g.ch(6); i > 0; i-- {
			sd = append(sd, p9.Dirent{QID: g.qid(), Offset: g.u64(), Type: p9.QIDType(g.u32()), Name: g.name()})
		}
		be := w.arm("Readdir", true, func(c *simfs.Call) { c.RDir = sd })
		_ = be
		ds, err := f.Readdir(off, cnt)
		c := w.call("Readdir", calls())
		w.onHandle("Readdir", c, f, err)
		if c != nil {
			if c.Offset != off || c.Count != cnt {
				w.find("wrong-args", "Readdir", "Readdir(%d, %d) reached the backend as (%d, %d)", off, cnt, c.Offset, c.Count)
			}
			if c.Err == nil || isEOF(c.Err) {
				want := direntsFromRC(truncDirents(direntsToRC(c.RDir), cnt))
				if err != nil {
					w.find("spurious-error", "Readdir", "Readdir returned %v although the backend returned (%d entries, %v)", err, len(sd), c.Err)
				} else if !(len(ds) == 0 && len(want) == 0) && !reflect.DeepEqual([]p9.Dirent(ds), []p9.Dirent(want)) {
					w.find("wrong-result", "Readdir", "backend returned %d entries (%d fit in %d bytes), caller got %d: %v vs %v", len(sd), len(want), cnt, len(ds), ds, want)
				}
			} else {
				w.errCheck("Readdir", err, cerr(c))
			}
		}
	case 8:
		st := g.text()
		be := w.arm("Readlink", false, func(c *simfs.Call) { c.RStr = st })
		_ = be
		t, err := f.Readlink()
		c := w.call("Readlink", calls())
		w.onHandle("Readlink", c, f, err)
		if c != nil && w.errCheck("Readlink", err, cerr(c)) && t != st {
			w.find("wrong-result", "Readlink", "backend returned %q, caller got %q", trunc(st, 40), trunc(t, 40))
		}
	case 9:
		ss := p9.FSStat{Type: g.u32(), BlockSize: g.u32(), Blocks: g.u64(), BlocksFree: g.u64(), BlocksAvailable: g.u64(), Files: g.u64(), FilesFree: g.u64(), FSID: g.u64(), NameLength: g.u32()}
		be := w.arm("StatFS", false, func(c *simfs.Call) { c.RStat = ss })
		_ = be
		st, err := f.StatFS()
		c := w.call("StatFS", calls())
		w.onHandle("StatFS", c, f, err)
		if w.errCheck("StatFS", err, cerr(c)) && st != ss {
			w.find("wrong-result", "StatFS", "backend returned %+v, caller got %+v", ss, st)
		}
	case 10:
		be := w.arm("FSync", false, nil)
		_ = be
		err := f.FSync()
		c := w.call("FSync", calls())
		w.onHandle("FSync", c, f, err)
		if c != nil {
			w.errCheck("FSync", err, cerr(c))
		}
	case 11, 12, 13, 14:
		kind := []string{"Create", "Mkdir", "Symlink", "Mknod"}[g.ch(4)]
		name, perm := g.name(), p9.FileMode(g.u32())
		uid, gid := p9.UID(g.u32()), p9.GID(g.u32())
		sq, sio := g.qid(), g.u32()
		be := w.arm(kind, false, func(c *simfs.Call) { c.RQID, c.RIoUnit = sq, sio })
		_ = be
		wu, wg := w.uidgid(uid, gid)
		var q p9.QID
		var err error
		var ioU uint32
		target := g.text()
		fl := p9.OpenFlags(g.ch(3))
		maj, min := g.u32(), g.u32()
		switch kind {
		case "Create":
			// Create turns the client file into the new file: use a clone
			_, cf, werr := f.Walk(nil)
			w.e.Hold(cf)
			if werr != nil {
				return
			}
			w.hof[cf] = lastHandle(calls())
			mark = len(fs.Calls)
			var nf p9.File
			nf, q, ioU, err = cf.Create(name, fl, perm, uid, gid)
			if err == nil {
				if nf != cf {
					w.find("wrong-result", "Create", "client Create must return the receiver itself")
				}
				if h := lastHandle(fs.Calls[mark:]); h != nil {
					w.hof[cf] = h
					*files = append(*files, cf)
				}
			}
			f = cf
		case "Mkdir":
			q, err = f.Mkdir(name, perm, uid, gid)
		case "Symlink":
			q, err = f.Symlink(target, name, uid, gid)
		case "Mknod":
			q, err = f.Mknod(name, perm, maj, min, uid, gid)
		}
		c := w.call(kind, fs.Calls[mark:])
		if c != nil {
			okArgs := c.Name == name && c.UID == wu && c.GID == wg
			switch kind {
			case "Create":
				okArgs = okArgs && c.Flags == uint32(fl) && c.Mode == perm&0o7777
			case "Mkdir":
				okArgs = okArgs && c.Mode == perm&0o7777
			case "Symlink":
				okArgs = okArgs && c.Name2 == target
			case "Mknod":
				okArgs = okArgs && c.Mode == perm && c.Major == maj && c.Minor == min
			}
			if !okArgs {
				w.find("wrong-args", kind, "%s(name %q, perm %o, uid %d, gid %d, flags %d, target %q, dev %d:%d) at version %d reached the backend as %s mode=%o uid=%d gid=%d flags=%d dev %d:%d",
					kind, trunc(name, 30), perm, uid, gid, fl, trunc(target, 30), maj, min, w.ver, c, c.Mode, c.UID, c.GID, c.Flags, c.Major, c.Minor)
			}
			if w.errCheck(kind, err, cerr(c)) && (q != sq || (kind == "Create" && ioU != sio)) {
				w.find("wrong-result", kind, "backend returned (%v, %d), caller got (%v, %d)", sq, sio, q, ioU)
			}
		}
	case 15:
		t := (*files)[g.ch(len(*files))]
		name := g.name()
		be := w.arm("Link", false, nil)
		_ = be
		err := f.Link(t, name)
		c := w.call("Link", calls())
		w.onHandle("Link", c, f, err)
		if c != nil {
			if c.Name != name || (w.hof[t] != nil && c.Target != w.hof[t]) {
				w.find("wrong-args", "Link", "Link(target, %q) reached the backend as %s (target handle %v, want %v)", trunc(name, 30), c, c.Target, w.hof[t])
			}
			w.errCheck("Link", err, cerr(c))
		}
	case 16:
		// Rename arrives as RenameAt on the parent under the entry's current name
		d := (*files)[g.ch(len(*files))]
		name := g.name()
		h := w.hof[f]
		var hpar *simfs.Handle
		hname := ""
		if h != nil {
			hpar, hname = h.Parent(), h.Name() // before the call: Renamed updates them
		}
		be := w.arm("RenameAt", false, nil)
		_ = be
		err := f.Rename(d, name)
		c := w.call("RenameAt", calls())
		if c != nil && h != nil && hpar != nil {
			if c.H != hpar || c.Name != hname || c.Name2 != name || (w.hof[d] != nil && c.Target != w.hof[d]) {
				w.find("wrong-args", "Rename", "Rename(dir, %q) of %s must reach the backend as RenameAt(%q -> dir/%q) on its parent; got %s on %s", trunc(name, 30), h.Path(), hname, trunc(name, 30), c, c.H.Path())
			}
			w.errCheck("Rename", err, cerr(c))
		}
	case 17:
		d := (*files)[g.ch(len(*files))]
		on, nn := g.name(), g.name()
		be := w.arm("RenameAt", false, nil)
		_ = be
		err := f.RenameAt(on, d, nn)
		c := w.call("RenameAt", calls())
		w.onHandle("RenameAt", c, f, err)
		if c != nil {
			if c.Name != on || c.Name2 != nn || (w.hof[d] != nil && c.Target != w.hof[d]) {
				w.find("wrong-args", "RenameAt", "RenameAt(%q, dir, %q) reached the backend as %s", trunc(on, 30), trunc(nn, 30), c)
			}
			w.errCheck("RenameAt", err, cerr(c))
		}
	case 18:
		name, fl := g.name(), g.u32()
		be := w.arm("UnlinkAt", false, nil)
		_ = be
		err := f.UnlinkAt(name, fl)
		c := w.call("UnlinkAt", calls())
		w.onHandle("UnlinkAt", c, f, err)
		if c != nil {
			if c.Name != name || c.Flags != fl {
				w.find("wrong-args", "UnlinkAt", "UnlinkAt(%q, %#x) reached the backend as %s flags=%#x", trunc(name, 30), fl, c, c.Flags)
			}
			w.errCheck("UnlinkAt", err, cerr(c))
		}
	case 19:
		pid, lt, lf, st, ln, cl := int(int32(g.u32())), p9.LockType(g.ch(3)), p9.LockFlags(g.u32()), g.u64(), g.u64(), g.name()
		ss := p9.LockStatus(g.ch(4))
		be := w.arm("Lock", false, func(c *simfs.Call) { c.RLock = ss })
		_ = be
		got, err := f.Lock(pid, lt, lf, st, ln, cl)
		c := w.call("Lock", calls())
		w.onHandle("Lock", c, f, err)
		if c == nil {
			if be == nil && err != nil && errnoOf(err) == EBADF {
				w.find("wrong-file", "Lock", "Lock did not reach the backend at all (the request named an unbound fid): %v", err)
			}
			return
		}
		want := [6]uint64{uint64(int64(pid)), uint64(lt), uint64(lf), st, ln, 0}
		if c.LockArgs != want || c.Client != cl {
			w.find("wrong-args", "Lock", "Lock(%d,%d,%d,%d,%d,%q) reached the backend as %v %q", pid, lt, lf, st, ln, trunc(cl, 20), c.LockArgs, trunc(c.Client, 20))
		}
		if w.errCheck("Lock", err, cerr(c)) && got != ss {
			w.find("wrong-result", "Lock", "backend returned %v, caller got %v", ss, got)
		}
	case 20:
		name := "user." + g.name()
		// (the largest values take several messages at any msize used here)
		sv := nbytes(uint64(g.ch(1000)), []int{0, 1, 100, 5000, 40000, 70001}[g.ch(6)])
		be := w.arm("GetXattr", false, func(c *simfs.Call) { c.RData = sv })
		_ = be
		v, err := f.GetXattr(name)
		c := w.call("GetXattr", calls())
		w.onHandle("GetXattr", c, f, err)
		if c != nil {
			if c.Name != name {
				w.find("wrong-args", "GetXattr", "GetXattr(%q) reached the backend as %q", trunc(name, 30), trunc(c.Name, 30))
			}
			if len(sv) >= 40000 && err == nil {
				w.rcx.Count("getxattr.values_of_40000_bytes_and_more", 1)
			}
			if w.errCheck("GetXattr", err, cerr(c)) && !bytes.Equal(v, sv) {
				w.find("wrong-result", "GetXattr", "backend returned %d bytes, caller got %d", len(sv), len(v))
			}
		}
	case 21:
		var sl []string
		for i := g.ch(5); i > 0; i-- {
			sl = append(sl, "user."+strings.ReplaceAll(g.name(), "\x00", "_"))
		}
		be := w.arm("ListXattrs", false, func(c *simfs.Call) { c.RStrs = sl })
		_ = be
		l, err := f.ListXattrs()
		c := w.call("ListXattrs", calls())
		w.onHandle("ListXattrs", c, f, err)
		if c != nil && w.errCheck("ListXattrs", err, cerr(c)) && !(len(l) == 0 && len(sl) == 0) && !reflect.DeepEqual(l, sl) {
			w.find("wrong-result", "ListXattrs", "backend returned %q, caller got %q", sl, l)
		}
	case 22:
		// not carried by the protocol client side: fail locally, nothing sent
		nfr := len(w.e.CliMon.Req.Frames)
		e1 := f.SetXattr("user.x", []byte("v"), 0)
		e2 := f.RemoveXattr("user.x")
		if errnoOf(e1) != ENOSYS || errnoOf(e2) != ENOSYS || e1 == nil || e2 == nil {
			w.find("wrong-result", "SetXattr", "SetXattr/RemoveXattr must fail with ENOSYS, got %v / %v", e1, e2)
		}
		if len(w.e.CliMon.Req.Frames) != nfr {
			w.find("frames-sent", "SetXattr", "SetXattr/RemoveXattr sent %d frames", len(w.e.CliMon.Req.Frames)-nfr)
		}
	case 23:
		names := []string{[]string{"a", "d", "b", "nope"}[g.ch(4)]}
		sv, sa := g.mask(), g.attr()
		sv.Mode = true
		sa.Mode = p9.ModeDirectory | 0o755
		be := w.arm("WalkGetAttr", false, func(c *simfs.Call) { c.RValid, c.RAttr = sv, sa })
		_ = be
		if w.fs.WalkGetAttrENOSYS {
			be = nil
			w.errFor = ""
		}
		qs, nf, v, a, err := f.WalkGetAttr(names)
		w.e.Hold(nf)
		if err == nil && nf != nil {
			if h := lastHandle(calls()); h != nil {
				w.hof[nf] = h
				*files = append(*files, nf)
			}
			if w.ver < 2 {
				// below version 2 the client walks and then asks for the
				// attributes itself: of the file it walked to
				var last *simfs.Call
				for _, cl := range calls() {
					if cl.Method == "GetAttr" && cl.Err == nil {
						last = cl
					}
				}
				if h := w.hof[nf]; last != nil && h != nil {
					if last.H != h {
						w.find("wrong-file", "WalkGetAttr", "WalkGetAttr(%q) at version %d: the attributes were asked of handle %d (%s), the walk reached handle %d (%s)", names, w.ver, last.H.ID, last.H.Path(), h.ID, h.Path())
					} else if v != last.RValid || a != last.RAttr {
						w.find("wrong-result", "WalkGetAttr", "WalkGetAttr(%q) at version %d: the file returned (%v, %+v), the caller got (%v, %+v)", names, w.ver, last.RValid, last.RAttr, v, a)
					}
				}
			}
			c := w.call("WalkGetAttr", calls())
			if c != nil && w.ver >= 2 && !w.fs.WalkGetAttrENOSYS && c.Err == nil && (v != sv || a != sa || len(qs) != 1) {
				w.find("wrong-result", "WalkGetAttr", "backend returned (%v, %+v), caller got (%v, %+v), %d QIDs", sv, sa, v, a, len(qs))
			}
		} else if be != nil && err != nil {
			c := w.call("WalkGetAttr", calls())
			if c != nil && c.Err == be && errnoOf(err) != errnoOf(be) {
				w.find("wrong-errno", "WalkGetAttr", "backend error %v, caller got %v", be, err)
			}
		}
	}
}

func runC03Like(rcx *RunCtx, prop string, extreme bool) {
	cfg := simCfg(rcx)
	p := rcx.Plan
	ver := rcx.Index % 8
	msize := []uint32{32768, 65536, 16384}[p.Choose(3)]
	seg := []int{simnet.SegWhole, simnet.SegRandom}[p.Choose(2)]
	wga := p.Choose(2) == 1
	nops := 10 + p.Choose(40)
	rcx.Label = fmt.Sprintf("version=%d", ver)
	w := &c03World{rcx: rcx, prop: prop, hof: map[p9.File]*simfs.Handle{}, ver: ver}
	rcx.Res = simrt.Run(cfg, rcx.Sched, func() {
		fs := simfs.New()
		w.fs = fs
		fs.WalkGetAttrENOSYS = wga
		fs.MkTree("/a/", "/a/sub/", "/a/sub/x", "/a/b", "/d/", "/d/a/", "/b", "/l->b")
		w.g = &gen{ch: simrt.Choose, extreme: extreme}
		fs.FaultFn = func(c *simfs.Call) *simfs.Fault {
			if w.errFor != "" && c.Method == w.errFor {
				w.errFor = ""
				return &simfs.Fault{Err: w.errVal}
			}
			return nil
		}
		fs.Script = func(c *simfs.Call) {
			if w.script != nil && c.Method == w.scriptFor {
				s := w.script
				w.script = nil
				s(c)
			}
		}
		e, err := NewE3(nil, fs, ver, msize, seg)
		w.e = e
		if err != nil {
			w.find("setup", "newclient", "NewClient failed at version %d: %v", ver, err)
			e.Shutdown()
			return
		}
		if int(e.Client.Version()) != ver {
			w.find("setup", "version", "negotiated version %d, wanted %d", e.Client.Version(), ver)
		}
		mark := len(fs.Calls)
		root, err := e.Client.Attach([]string{"", "/", "a", "/a/sub", "d/a"}[w.g.ch(5)])
		if err != nil {
			w.find("setup", "attach", "Attach failed: %v", err)
			e.Shutdown()
			return
		}
		e.Hold(root)
		w.hof[root] = lastHandle(fs.Calls[mark:])
		files := []p9.File{root}
		for i := 0; i < nops && len(rcx.Findings) == 0; i++ {
			w.op(&files)
		}
		simrt.Block("closers done", func() bool { return w.closing == 0 })
		// only message types the negotiated version defines
		for _, fr := range e.CliMon.Req.Frames {
			if !typeAllowedAt(fr.Type, uint32(ver)) {
				w.find("message-type-not-in-version", rc.TypeName(fr.Type), "at version %d the client sent %s", ver, fr)
			}
		}
		fs.FaultFn, fs.Script = nil, nil
		for _, f := range e.Shutdown() {
			rcx.Findings = append(rcx.Findings, f)
		}
	})
	rcx.Count("client.calls", w.nops)
	rcx.Count("backend.errors_injected", w.nerr)
	rcx.Sample = map[string]interface{}{"version": ver, "msize": msize, "calls": nops, "walkgetattr_enosys": wga, "extreme_values": extreme}
	finishRun(rcx)
}

func init() {
	Register(&Engine{
		ID:   "C03",
		Desc: "client/server transparency of every File operation at every version (real client <-> real server, scripted backend)",
		Run:  func(rcx *RunCtx) { runC03Like(rcx, "C03", rcx.Plan.Choose(2) == 1) },
		Quick: 48000, Thorough: 3000000, QuickSecs: 60, ThorSecs: 1500,
		Rule:  fmt.Sprintf("versions 0..7 in rotation (forced through a frame relay that rewrites the Tversion string), 10-50 client calls per run over all File methods (GetAttr, SetAttr, Walk 0-3 components, WalkGetAttr, Open, ReadAt, WriteAt, Readdir, Readlink, StatFS, FSync, Create, Mkdir, Symlink, Mknod, Link, Rename, RenameAt, UnlinkAt, Lock, GetXattr, ListXattrs, SetXattr/RemoveXattr; now and then a Close of an earlier handle runs concurrently in a task of its own) with generated arguments (half of the runs boundary-biased: 0, 2^k+-1, max, sentinels, names with NUL/high bytes/255/4000 bytes) against a backend whose results are scripted by the generator (QIDs, masks, attrs, stats, strings, lock status, dirents) and whose calls fail 1/3 of the time with one of %d error shapes (linux.Errno, syscall.Errno, os.Err*, *PathError/*LinkError/*SyscallError, %%w chains, errors.Join, opaque, io.EOF for reads/listings); handles from attach (5 attach names), walk, create, clone. Oracle: backend call log — the right method on the handle the client File was derived from, arguments equal modulo the documented rewrites (07777, uid/gid dropped below version 3, one component per walk, Rename/Remove as RenameAt/UnlinkAt on the parent under the current name); returned values equal the scripted ones; errors = the errno in the chain, else the os.Err* mapping, else EIO; wire: only message types of the negotiated version, every frame laid out per spec. Input/configuration property.", len(c03Errors)),
		Real:   []string{"p9.Client", "p9 client files", "p9.Server", "p9 handlers", "p9 wire codec", "linux.ExtractErrno"},
		Stub:   []string{"transport (simnet pipes + frame relay)", "backend tree (simfs, scripted results)"},
		Owns:   []string{"C01"},
	})
}
