package sim

import (
	"fmt"

	rc "github.com/hugelgupf/p9/zzverif/refcodec"
	"github.com/hugelgupf/p9/zzverif/simfs"
	"github.com/hugelgupf/p9/zzverif/simrt"
)

// Directed pair scenarios (DESIGN.md §5 C06/C07, appendix B and E):
// request A is parked inside its backend call, request B is issued, the
// system runs to quiescence, then A is released.
//
//   - C07: the overlap monitor in simfs flags B's backend call entering while
//     A's conflicting call is still running; Open twice on a File.
//   - C06 (concurrency clause): if the File contract does not order B after
//     A, B must be answered while A is still parked.

type pairCase struct {
	A, B     *opSpec
	Rel      string
	CrossCon bool
}

var pairCatalogue []pairCase

func init() {
	for _, a := range opTable {
		for _, b := range opTable {
			for _, rel := range relations {
				for _, cross := range []bool{false, true} {
					if rel == "samefid" && cross {
						continue
					}
					pairCatalogue = append(pairCatalogue, pairCase{a, b, rel, cross})
				}
			}
		}
	}
}

func simCfg(rcx *RunCtx) simrt.Config {
	p := rcx.Plan
	cfg := simrt.Config{Trace: rcx.Trace, MaxSteps: 300000}
	cfg.Stick = []int{0, 0, 1, 3, 8}[p.Choose(5)]
	cfg.YieldAtomics = p.Choose(3) != 0
	cfg.PoolMissPct = []int{0, 0, 10, 50}[p.Choose(4)]
	if p.Choose(6) == 5 {
		cfg.PCT = 1 + p.Choose(4)
	}
	return cfg
}

// prepareFid binds fid to path in the state the op needs.
func prepareFid(c *SrvConn, fid uint32, path string, o *opSpec) bool {
	if !c.WalkTo(0, fid, path) {
		return false
	}
	if o.Open == 1 {
		flags := uint32(2)
		if o.Need == int(simfs.Dir) {
			flags = 0
		}
		if _, ok := c.RPC(&rc.Tlopen{Fid: fid, Flags: flags}).(*rc.Rlopen); !ok {
			return false
		}
	}
	return true
}

func prepareAux(c *SrvConn, fid uint32, o *opSpec, role string) bool {
	switch o.Aux {
	case "dir":
		p := "/aux"
		if role == "B" {
			p = "/aux2"
		}
		return c.WalkTo(0, fid, p)
	case "file":
		p := "/aux/file"
		if role == "B" {
			p = "/aux2/file"
		}
		return c.WalkTo(0, fid, p)
	}
	return true
}

func runPair(rcx *RunCtx, pc pairCase) {
	pairVariant = rcx.Index % 5
	if rcx.Index >= len(pairCatalogue) {
		pairVariant = rcx.Plan.Choose(5)
	}
	pa, pb, ok := pickPaths(pc.A, pc.B, pc.Rel)
	rcx.Label = fmt.Sprintf("pair %s|%s|%s|cross=%v", pc.A.Name, pc.B.Name, pc.Rel, pc.CrossCon)
	if !ok {
		rcx.Trivial = true
		rcx.Res = &simrt.Result{Outcome: "infeasible", Probes: map[string]int{}, Faults: map[string]int{}}
		rcx.Count("pairs.infeasible", 1)
		return
	}
	cfg := simCfg(rcx)
	wgaENOSYS := rcx.Plan.Choose(2) == 1
	ver := 7 - rcx.Plan.Choose(8)
	var w *World
	rcx.Sample = map[string]interface{}{"A": describeOp(pc.A, pa), "B": describeOp(pc.B, pb), "relation": pc.Rel, "cross_connection": pc.CrossCon, "version": ver, "walkgetattr_enosys": wgaENOSYS}
	rcx.Res = simrt.Run(cfg, rcx.Sched, func() {
		fs := simfs.New()
		fs.WalkGetAttrENOSYS = wgaENOSYS
		buildDirectedTree(fs)
		w = NewWorld(nil, fs)
		ca := w.Connect()
		cb := ca
		if pc.CrossCon {
			cb = w.Connect()
		}
		if !ca.Start(8192, versionStr(ver)) || (pc.CrossCon && !cb.Start(8192, versionStr(ver))) {
			rcx.Find(rcx.Prop, "setup", "start", "could not negotiate/attach")
			return
		}
		const fidA, fidB, auxA, auxB = 10, 11, 12, 13
		okA := prepareFid(ca, fidA, pa, pc.A) && prepareAux(ca, auxA, pc.A, "A")
		fb := uint32(fidB)
		okB := true
		if pc.Rel == "samefid" {
			fb = fidA
		} else {
			okB = prepareFid(cb, fidB, pb, pc.B)
		}
		okB = okB && prepareAux(cb, auxB, pc.B, "B")
		if !okA || !okB {
			rcx.Find(rcx.Prop, "setup", "prepare", "could not prepare fids for %s / %s", describeOp(pc.A, pa), describeOp(pc.B, pb))
			return
		}
		methodA := pc.A.Method
		if methodA == "WalkGetAttr" && wgaENOSYS {
			methodA = "Walk"
		}
		mark := fs.NCalls
		var held *simfs.Call
		fs.Hold = func(c *simfs.Call) bool {
			if held == nil && c.Seq >= mark && c.Method == methodA {
				held = c
				return true
			}
			return false
		}
		reqA := ca.Send(ca.Tag(), pc.A.Build(fidA, auxA, "A", baseOf(pa)))
		simrt.WaitQuiescent()
		if held == nil {
			// A never reached its backend call (rejected earlier): nothing to decide
			rcx.Trivial = true
			rcx.Count("pairs.A-not-held", 1)
			fs.Hold = nil
			w.Shutdown()
			rcx.Findings = append(rcx.Findings, w.Findings...)
			return
		}
		rcx.Count("pairs.A-held", 1)
		reqB := cb.Send(cb.Tag(), pc.B.Build(fb, auxB, "B", baseOf(pb)))
		simrt.WaitQuiescent()
		bDone := reqB.Reply != nil
		// would-be backend call of B
		methodB := pc.B.Method
		if methodB == "WalkGetAttr" && wgaENOSYS {
			methodB = "Walk"
		}
		wb := &simfs.Call{Method: methodB, Path: callPath(pc.B, pb), PathKey: callPath(pc.B, pb)}
		if pc.B.Victim != nil {
			wb.Name = pc.B.Victim("B", baseOf(pb))
		}
		conflict := simfs.Conflict(held, wb)
		if bDone {
			rcx.Count("pairs.B-answered-while-A-parked", 1)
		} else {
			rcx.Count("pairs.B-waited-for-A", 1)
		}
		if conflict {
			rcx.Count("pairs.conflicting", 1)
		}
		ordered := conflict
		if held.Method == "Open" && methodB == "Open" && pc.Rel == "samefid" {
			// "Open is invoked at most once on a File" necessarily orders a
			// second open of the same fid after the first
			ordered = true
		}
		if !ordered && !bDone {
			where := "not yet read from the connection"
			if reqB.Reader != nil {
				where = "blocked at: " + reqB.Reader.Desc()
			}
			// Key by cause, so that the two by-design over-serialisations that
			// are recorded as known findings do not hide anything else.
			key := pc.A.Name + "/" + pc.B.Name + "/" + relClass(pc, pa, pb)
			asRead := func(c *simfs.Call) *simfs.Call {
				d := *c
				d.Method = "GetAttr"
				return &d
			}
			switch {
			case pc.A.Name == "remove" || pc.B.Name == "remove":
				// Tremove executes under the server-wide rename lock although
				// its backend call (UnlinkAt) is only write-class
				key = "tremove-runs-as-global"
			case classOf(held.Method) == 'N' && simfs.Conflict(asRead(held), wb):
				key = "no-guarantee-request-takes-read-lock/" + pc.A.Name
			case classOf(methodB) == 'N' && simfs.Conflict(held, asRead(wb)):
				key = "no-guarantee-request-takes-read-lock/" + pc.B.Name
			}
			rcx.Find("C06", "delayed-by-unordered-request", key,
				"%s on %s was not answered while %s was parked inside backend %s, although the File contract does not order them (%s; B %s)",
				describeOp(pc.B, pb), cb.Mon.Name, describeOp(pc.A, pa), held, pc.Rel, where)
		}
		held.Release()
		simrt.WaitQuiescent()
		if reqA.Reply == nil {
			rcx.Find("C06", "no-reply", pc.A.Name, "request A %s was never answered after release", reqA)
		}
		if reqB.Reply == nil {
			rcx.Find("C06", "no-reply", pc.B.Name, "request B %s was never answered after A was released", reqB)
		}
		fs.Hold = nil
		// After-effects: however the tail of A interleaved with B, the
		// backend's handles are where the tree says, and every fid that is
		// still bound can be cloned and looked at.  (A clone walks in place,
		// which is what fails when the path tree has lost track of a fid.)
		for _, v := range fs.CheckCoherence() {
			rcx.Find("C08", v.Oracle, "pair-aftermath", "after %s || %s (%s): %s", describeOp(pc.A, pa), describeOp(pc.B, pb), pc.Rel, v.Detail)
		}
		type pf struct {
			c   *SrvConn
			fid uint32
		}
		for _, x := range []pf{{ca, fidA}, {cb, fb}, {ca, auxA}, {cb, auxB}} {
			req := x.c.Send(x.c.Tag(), &rc.Twalk{Fid: x.fid, NewFid: 90})
			simrt.WaitQuiescent()
			if req.Reply == nil {
				rcx.Find("C06", "no-reply", "pair-aftermath", "clone of fid %d after the pair was not answered", x.fid)
				break
			}
			if Errno(req.Reply.Msg) == EFAULT {
				rcx.Find("C04", "wrong-reply", "pair-aftermath/EFAULT", "after %s || %s (%s): cloning fid %d gives EFAULT although no backend call panicked", describeOp(pc.A, pa), describeOp(pc.B, pb), pc.Rel, x.fid)
			}
			if _, ok := req.Reply.Msg.(*rc.Rwalk); ok {
				g := x.c.Send(x.c.Tag(), &rc.Tgetattr{Fid: 90, Mask: rc.GetattrIno})
				simrt.WaitQuiescent()
				if g.Reply != nil && Errno(g.Reply.Msg) == EFAULT {
					rcx.Find("C04", "wrong-reply", "pair-aftermath/EFAULT", "after %s || %s (%s): Tgetattr on a clone of fid %d gives EFAULT", describeOp(pc.A, pa), describeOp(pc.B, pb), pc.Rel, x.fid)
				}
				x.c.Send(x.c.Tag(), &rc.Tclunk{Fid: 90})
				simrt.WaitQuiescent()
			}
		}
		w.Shutdown()
		rcx.Findings = append(rcx.Findings, w.Findings...)
	})
	finishRun(rcx)
}

// relClass groups relations for finding keys: what matters for a delay is
// whether B shares the connection / the node with A.
func relClass(pc pairCase, pa, pb string) string {
	s := pc.Rel
	if pc.CrossCon {
		s += "/cross"
	}
	return s
}

// finishRun turns scheduler-level outcomes into findings common to all engines.
func finishRun(rcx *RunCtx) {
	r := rcx.Res
	if r == nil {
		return
	}
	for _, p := range r.Panics {
		rcx.Find("C16", "task-panic", p.Task, "panic reached the top of task %s at step %d: %s", p.Task, p.Step, p.Value)
	}
	if r.Outcome == "deadlock" || r.Outcome == "budget" {
		// the scenario was cut short: what the monitors saw until then counts
		have := map[string]bool{}
		for _, f := range rcx.Findings {
			have[f.Prop+f.Key+f.Detail] = true
		}
		add := func(f Finding) {
			if !have[f.Prop+f.Key+f.Detail] {
				have[f.Prop+f.Key+f.Detail] = true
				rcx.Findings = append(rcx.Findings, f)
			}
		}
		for _, m := range liveMons {
			for _, f := range m.Findings {
				add(f)
			}
		}
		for _, fk := range liveFakes {
			for _, f := range fk.Findings {
				add(f)
			}
		}
		for _, fs := range liveFS {
			for _, v := range fs.Viol {
				add(Finding{Prop: v.Prop, Oracle: v.Oracle, Detail: v.Detail, Key: v.Key})
			}
		}
	}
	switch r.Outcome {
	case "deadlock":
		rcx.Find("C16", "deadlock", "deadlock", "no task can run: %v", r.Blocked)
	case "budget":
		rcx.Find("C16", "livelock", "budget", "step budget exhausted: %v", r.Blocked)
	}
	// Properties whose statement is about what a call returns are violated by
	// a call that never returns; their checks report that under their own id.
	if what := completionOwned[rcx.Prop]; what != "" && (r.Outcome == "deadlock" || r.Outcome == "budget") {
		rcx.Find(rcx.Prop, "did-not-complete", r.Outcome, "%s: the run ended in %s (%s): %v", what, r.Outcome, rcx.Label, r.Blocked)
	}
}

var completionOwned = map[string]string{
	"C01": "what one peer sends in the layout of the spec is what the other reconstructs (the sender of this workload waits for the answer to every frame it sent)",
	"C06": "every decodable request gets exactly one reply (the peers of this workload wait for theirs)",
	"C03": "a client File operation must give the caller what the server-side File returned",
	"C11": "ReadAt/WriteAt must return the count and error of the chunks issued",
}

func init() {
	Register(&Engine{
		ID:   "C07",
		Desc: "backend concurrency contract: directed pair rendezvous + random concurrent workloads with overlap monitor",
		Run: func(rcx *RunCtx) {
			if rcx.Index < len(pairCatalogue) {
				runPair(rcx, pairCatalogue[rcx.Index])
				return
			}
			if rcx.Plan.Choose(4) == 0 {
				// a catalogue pair again, with other request details (setattr
				// masks) and a tape-chosen schedule
				runPair(rcx, pairCatalogue[rcx.Plan.Choose(len(pairCatalogue))])
				return
			}
			runRandomWorkload(rcx, workloadOpts{})
		},
		Directed: func(string) int { return len(pairCatalogue) },
		Quick:    24000, Thorough: 1600000, QuickSecs: 60, ThorSecs: 1500,
		Rule: "directed: every ordered pair (A,B) of 24 backend-reaching request kinds x 8 path relations x same/other connection, A parked inside its backend call by a hold, B issued, run to quiescence, A released (all in every tier; Tsetattr masks rotate through mode / times only / empty / size / owner); random: 1/4 catalogue pairs again with other masks and tape-chosen schedules, 3/4 concurrent pipelined peers on 1-4 connections over a shared tree with tape-driven scheduling. Oracle: conflict matrix from the comments on p9.File evaluated by the backend's overlap monitor at every call entry; Open count per handle. A run is non-trivial if A actually parked inside the backend (directed) or >=2 backend calls were in flight together (random); distinct = distinct (scenario label, schedule fingerprint).",
		Assume: []string{"task switches happen at synchronisation operations, atomics, transport and backend calls only", "simfs path identity = slash path of the handle; handles on removed entries count as distinct paths"},
		Real:   []string{"p9.Server", "p9 path tree / fid table / handlers", "p9 wire codec"},
		Stub:   []string{"transport (simnet pipes)", "backend tree (simfs)", "raw 9P peer (refcodec)"},
		Owns:   []string{"C07"},
	})
}

func init() {
	Register(&Engine{
		ID:   "C06",
		Desc: "one tagged contiguous reply per request; concurrent service (directed pairs + pipelined random workloads)",
		Run: func(rcx *RunCtx) {
			if rcx.Index < len(pairCatalogue) {
				runPair(rcx, pairCatalogue[rcx.Index])
				return
			}
			if k := rcx.Index - len(pairCatalogue); k < len(c06BatchCatalogue) {
				runC06Batch(rcx, c06BatchCatalogue[k])
				return
			} else if k -= len(c06BatchCatalogue); k < c06ExactCount() {
				runC06ExactMsize(rcx, k)
				return
			} else if k -= c06ExactCount(); k < c06ParkedCount() {
				runC06Parked(rcx, k)
				return
			}
			if rcx.Plan.Choose(6) == 0 {
				runPair(rcx, pairCatalogue[rcx.Plan.Choose(len(pairCatalogue))])
				return
			}
			runRandomWorkload(rcx, workloadOpts{Flush: true, BadFrames: rcx.Index%2 == 1})
		},
		Directed: func(string) int { return len(pairCatalogue) + len(c06BatchCatalogue) + c06ExactCount() + c06ParkedCount() },
		Quick:    24000, Thorough: 1600000, QuickSecs: 60, ThorSecs: 1500,
		Rule: "directed: same pair catalogue as C07 (A parked in backend, B issued): B must be answered while A is parked unless the File contract orders it after A; batches: 3 or 4 requests on files of their own (read/write/getattr/setattr/fsync/open in 7 combinations, on one or two connections) ALL parked inside their backend calls together, unrelated traffic served meanwhile, then released in EVERY order: each release answers exactly the released request; request frames of exactly msize and msize-1 bytes; with a request parked in the backend: unrelated traffic behind one or two waiting Tflush, and the peer closing its sending direction (the reply still arrives); random: pipelined peers, a tenth of the requests Tflush (of a request in flight, an answered, an idle or the own tag), every other request re-using the tag that was just answered, small reply pipe with slow reader, in half of the runs interspersed with well-delimited undecodable frames (unknown type, short body), whose Rlerror is a reply frame like any other. Wire monitor on the reply stream: every frame contiguous (single writer task), exactly one reply per decodable request with free tag, same tag, matching R-type or Rlerror, no unsolicited reply. Non-trivial/distinct as C07.",
		Assume: []string{"undecodable frames and requests re-using an in-flight tag are exempt, as the statement says", "progress of B is asserted only while no write/global request is pending (RWMutex writer preference legitimately delays readers)"},
		Real:   []string{"p9.Server", "p9 path tree / fid table / handlers", "p9 wire codec"},
		Stub:   []string{"transport (simnet pipes)", "backend tree (simfs)", "raw 9P peer (refcodec)"},
	})
}

func classOf(method string) byte {
	c := &simfs.Call{Method: method, PathKey: "x"}
	g := &simfs.Call{Method: "RenameAt", PathKey: "y"}
	if !simfs.Conflict(c, g) {
		return 'N'
	}
	return 'C'
}
