// Package simfs is the instrumented in-memory backend (p9.Attacher / p9.File)
// used by the simulation.
//
//   - handles are path based, like localfs: a handle stores (parent handle,
//     name), updated only by Renamed, and resolves to an object by name at each
//     use — a missed Renamed is observable;
//   - directories are NOT locked internally: the backend relies on the
//     concurrency contract documented on p9.File, as a naive backend would;
//   - every method is enter → gate → body → gate → exit; enter/exit feed the
//     overlap monitor (C07), lifecycle counters (C05), the call log
//     (C03/C09/C18) and per-task attribution (C14);
//   - a fault plan can make any call fail, panic or return short counts.
package simfs

import (
	"fmt"
	"io"
	"sort"
	"strings"

	"github.com/hugelgupf/p9/linux"
	"github.com/hugelgupf/p9/p9"
	"github.com/hugelgupf/p9/zzverif/simrt"
)

type Kind int

const (
	Dir Kind = iota
	Reg
	Symlink
	Fifo
	Chr
	Blk
	Sock
)

func (k Kind) Mode() p9.FileMode {
	switch k {
	case Dir:
		return p9.ModeDirectory
	case Reg:
		return p9.ModeRegular
	case Symlink:
		return p9.ModeSymlink
	case Fifo:
		return p9.ModeNamedPipe
	case Chr:
		return p9.ModeCharacterDevice
	case Blk:
		return p9.ModeBlockDevice
	case Sock:
		return p9.ModeSocket
	}
	return 0
}

func (k Kind) String() string {
	return [...]string{"dir", "reg", "symlink", "fifo", "chr", "blk", "sock"}[k]
}

func KindOfMode(m p9.FileMode) Kind {
	switch m & p9.FileModeMask {
	case p9.ModeDirectory:
		return Dir
	case p9.ModeSymlink:
		return Symlink
	case p9.ModeNamedPipe:
		return Fifo
	case p9.ModeCharacterDevice:
		return Chr
	case p9.ModeBlockDevice:
		return Blk
	case p9.ModeSocket:
		return Sock
	}
	return Reg
}

// Inode is a file object.
type Inode struct {
	Ino    uint64
	Kind   Kind
	Perm   p9.FileMode
	UID    p9.UID
	GID    p9.GID
	Data   []byte
	Target string
	Major  uint32
	Minor  uint32
	NLink  int
	names  []string // directory: entry names in creation order
	kids   *simrt.PMap[string, *Inode]
	xnames []string
	xattrs simrt.PMap[string, []byte]
	MTime  uint64
	ATime  uint64
	Gen    uint64
	// Synth > 0: a synthetic directory listing of that many entries named
	// e00000, e00001, … generated on the fly (for msize boundary studies).
	Synth int
}

func (i *Inode) Child(name string) *Inode {
	if i == nil || i.kids == nil {
		return nil
	}
	return i.kids.Get(name)
}

func (i *Inode) Names() []string { return simrt.Clone(i.names) }

func (i *Inode) link(name string, c *Inode) {
	if !i.kids.Has(name) {
		i.names = simrt.Push(i.names, name)
	}
	i.kids.Set(name, c)
	c.NLink++
}

func (i *Inode) unlink(name string) {
	c := i.kids.Get(name)
	if c == nil {
		return
	}
	i.kids.Del(name)
	for k, n := range i.names {
		if n == name {
			i.names = simrt.RemoveAt(simrt.Clone(i.names), k)
			break
		}
	}
	c.NLink--
}

// Violation is something an oracle inside the backend saw.
type Violation struct {
	Prop   string
	Oracle string
	Key    string // violation class: oracle plus site, no run-specific numbers
	Detail string
	Step   int
}

// Fault describes what an injected fault does to a call.
type Fault struct {
	Err   error  // returned instead of running the body
	Panic string // panic with this value instead of running the body
	// PanicVal, if set, is the value panicked with instead of the string
	// (an error, an errno, a runtime error: what real code panics with).
	PanicVal interface{}
	Short int    // ReadAt/WriteAt: transfer at most Short bytes (>0)
}

// Call is one backend method invocation.
type Call struct {
	Seq     int
	Method  string
	H       *Handle
	Path    string // path of the receiver at call time
	PathKey string // identity used by the overlap monitor
	Kind    Kind   // kind the receiver resolved to (-1 unknown)
	Task    *simrt.Task
	Req     interface{} // request attribution, copied from Task.Local["inherit.req"] (tasks spawned while handling a request work on its behalf)
	Conn    interface{} // connection attribution, from Task.Local["inherit.conn"]
	EnterAt int
	ExitAt  int
	Active  bool
	Held    bool
	Faulted bool
	Panicked bool

	// arguments (deep copies)
	Names   []string
	Name    string
	Name2   string
	Target  *Handle
	Flags   uint32
	Mode    p9.FileMode
	UID     p9.UID
	GID     p9.GID
	Major   uint32
	Minor   uint32
	Offset  uint64
	Count   uint32
	Data    []byte
	Mask    p9.AttrMask
	SetMask p9.SetAttrMask
	SetAttr p9.SetAttr
	LockArgs [6]uint64
	Client  string

	// results
	RQIDs   []p9.QID
	RQID    p9.QID
	RValid  p9.AttrMask
	RAttr   p9.Attr
	RN      int
	RData   []byte
	RStr    string
	RStrs   []string
	RDir    p9.Dirents
	RStat   p9.FSStat
	RIoUnit uint32
	RLock   p9.LockStatus
	RFile   *Handle
	Err     error
}

func (c *Call) String() string {
	s := fmt.Sprintf("#%d %s(%s", c.Seq, c.Method, c.Path)
	switch c.Method {
	case "Walk", "WalkGetAttr":
		s += fmt.Sprintf(" %q", c.Names)
	case "Create", "Mkdir", "Mknod", "UnlinkAt", "Link", "GetXattr", "SetXattr", "RemoveXattr":
		s += fmt.Sprintf(" %q", c.Name)
	case "Symlink":
		s += fmt.Sprintf(" %q->%q", c.Name, c.Name2)
	case "RenameAt":
		tp := "?"
		if c.Target != nil {
			tp = c.Target.Path()
		}
		s += fmt.Sprintf(" %q -> %s/%q", c.Name, tp, c.Name2)
	case "Renamed":
		tp := "?"
		if c.Target != nil {
			tp = c.Target.Path()
		}
		s += fmt.Sprintf(" -> %s/%q", tp, c.Name)
	case "ReadAt", "WriteAt":
		s += fmt.Sprintf(" off=%d n=%d", c.Offset, c.Count)
	case "Readdir":
		s += fmt.Sprintf(" off=%d count=%d", c.Offset, c.Count)
	case "Open":
		s += fmt.Sprintf(" flags=%d", c.Flags)
	}
	s += ")"
	if c.Err != nil {
		s += " err=" + c.Err.Error()
	}
	return s
}

// Handle is a p9.File handed to the server.
type Handle struct {
	ID        int
	fs        *FS
	parent    *Handle
	name      string
	// cpath is the handle's own idea of where it lives, as a path-based
	// backend such as localfs keeps it: computed once from the parent's path
	// when the handle is made, copied by a clone, and afterwards changed only
	// by Renamed (from the new parent's path *at that moment*).  A rename of
	// an ancestor therefore reaches it only if the server tells it, after
	// having told the ancestor.
	cpath     []string
	bound     *Inode // object this handle was created for
	pinned    *Inode // set by Open/Create: I/O goes here, like an fd
	gone      bool   // the directory entry this handle named has been removed
	CreatedBy string
	Closes    int
	Opens     int
	opening   int
	UsedAfterClose int
	active    int
	Conn      interface{}
}

func (h *Handle) Path() string {
	if h == nil {
		return "<nil>"
	}
	if h.parent == nil {
		return "/"
	}
	return "/" + strings.Join(h.cpath, "/")
}

func (h *Handle) Name() string    { return h.name }
func (h *Handle) Parent() *Handle { return h.parent }
func (h *Handle) Bound() *Inode   { return h.bound }
func (h *Handle) Gone() bool      { return h.gone }
func (h *Handle) Closed() bool    { return h.Closes > 0 }

// resolve follows the handle's path from the root.
func (h *Handle) resolve() *Inode {
	n := h.fs.Root
	if h.parent == nil {
		return n
	}
	for _, name := range h.cpath {
		if n == nil || n.Kind != Dir {
			return nil
		}
		n = n.kids.Get(name)
	}
	return n
}

// node is the object operations act on.
func (h *Handle) node() *Inode {
	if h.pinned != nil {
		return h.pinned
	}
	return h.resolve()
}

// FS is one backend instance (one per simulated server).
type FS struct {
	Root    *Inode
	nextIno uint64

	Handles []*Handle
	Calls   []*Call
	active  []*Call
	Viol    []Violation

	// configuration (per run)
	WalkGetAttrENOSYS bool // WalkGetAttr returns ENOSYS: server falls back to Walk+GetAttr
	CloneQIDs         bool // Walk(nil) returns one QID instead of none
	ReaddirMax        int  // >0: at most that many entries per Readdir call
	IoUnit            uint32
	KeepCalls         bool // keep the full call log (else only counters)
	// RecursiveRemove: unlinking or overwriting a non-empty directory takes
	// everything below with it (a backend is free to allow that), so fids
	// several levels below a removed entry exist.
	RecursiveRemove bool
	NoOverlapCheck    bool

	// Hold decides at enter whether a call is parked until released.
	Hold func(c *Call) bool
	// FaultFn decides whether a call is faulted.
	FaultFn func(c *Call) *Fault
	// Post observes a finished call.
	Post func(c *Call)
	// Script may rewrite the result fields of a successful call right before
	// they are returned (scripted mode, C03/C01): the values the backend
	// "returned" are then whatever the generator chose.
	Script func(c *Call)
	// OnEnter / OnExit observers.
	OnEnter func(c *Call)
	OnExit  func(c *Call)

	NCalls   int
	ByMethod simrt.PMap[string, int]
	Overlaps simrt.PMap[string, int] // pairs of methods observed active together (coverage)
}

func New() *FS {
	fs := &FS{nextIno: 1, IoUnit: 0, KeepCalls: true}
	fs.Root = fs.newInode(Dir, 0o755)
	fs.Root.NLink = 1
	return fs
}

func (fs *FS) newInode(k Kind, perm p9.FileMode) *Inode {
	fs.nextIno++
	i := &Inode{Ino: fs.nextIno, Kind: k, Perm: perm & 0o7777, MTime: 1000, ATime: 1000}
	if k == Dir {
		i.kids = &simrt.PMap[string, *Inode]{}
	}
	return i
}

// MkTree populates the tree: paths ending in "/" are directories, "a->b" are
// symlinks, "|x" fifos; everything else is a regular file with its path as content.
func (fs *FS) MkTree(paths ...string) {
	for _, p := range paths {
		fs.MkPath(p)
	}
}

func (fs *FS) MkPath(p string) *Inode {
	isDir := strings.HasSuffix(p, "/")
	p = strings.Trim(p, "/")
	parts := strings.Split(p, "/")
	cur := fs.Root
	for i, part := range parts {
		last := i == len(parts)-1
		kind := Dir
		target := ""
		name := part
		if last && !isDir {
			kind = Reg
			if j := strings.Index(part, "->"); j >= 0 {
				kind, name, target = Symlink, part[:j], part[j+2:]
			} else if strings.HasPrefix(part, "|") {
				kind, name = Fifo, part[1:]
			} else if strings.HasPrefix(part, "%") {
				kind, name = Chr, part[1:]
			} else if strings.HasPrefix(part, "=") {
				kind, name = Sock, part[1:]
			}
		}
		c := cur.kids.Get(name)
		if c == nil {
			c = fs.newInode(kind, 0o644)
			if kind == Dir {
				c.Perm = 0o755
			}
			if kind == Reg {
				c.Data = []byte("content of " + p)
			}
			c.Target = target
			cur.link(name, c)
		}
		cur = c
	}
	return cur
}

// Lookup resolves a slash path in the current tree.
func (fs *FS) Lookup(p string) *Inode {
	cur := fs.Root
	for _, part := range strings.Split(strings.Trim(p, "/"), "/") {
		if part == "" {
			continue
		}
		if cur == nil || cur.Kind != Dir {
			return nil
		}
		cur = cur.kids.Get(part)
	}
	return cur
}

func (fs *FS) viol(prop, oracle, key, format string, args ...interface{}) {
	v := Violation{Prop: prop, Oracle: oracle, Key: oracle + ":" + key, Detail: fmt.Sprintf(format, args...), Step: simrt.Steps()}
	fs.Viol = simrt.Push(fs.Viol, v)
	simrt.Event("VIOLATION %s/%s: %s", prop, oracle, v.Detail)
}

func (fs *FS) newHandle(parent *Handle, name string, bound *Inode, by string) *Handle {
	h := &Handle{ID: len(fs.Handles), fs: fs, parent: parent, name: name, bound: bound, CreatedBy: by}
	if parent != nil {
		h.cpath = append(append([]string{}, parent.cpath...), name)
	}
	if t := simrt.Current(); t != nil {
		h.Conn = t.Local.Get("inherit.conn")
	}
	fs.Handles = simrt.Push(fs.Handles, h)
	return h
}

// Attach implements p9.Attacher.
func (fs *FS) Attach() (p9.File, error) {
	c := &Call{Method: "Attach", Path: "/", PathKey: "attach", Kind: Dir}
	fs.begin(c)
	defer fs.end(c)
	if fs.fault(c) {
		return nil, c.Err
	}
	h := fs.newHandle(nil, "", fs.Root, "Attach")
	c.RFile = h
	return h, nil
}

// ---------------------------------------------------------- call plumbing

var readClass = map[string]bool{"Walk": true, "WalkGetAttr": true, "GetAttr": true, "Open": true, "ReadAt": true, "WriteAt": true, "FSync": true, "Readdir": true, "Readlink": true}
var writeClass = map[string]bool{"SetAttr": true, "Create": true, "Mkdir": true, "Symlink": true, "Link": true, "Mknod": true, "UnlinkAt": true}
var globalClass = map[string]bool{"RenameAt": true, "Renamed": true}

func class(m string) byte {
	switch {
	case readClass[m]:
		return 'R'
	case writeClass[m]:
		return 'W'
	case globalClass[m]:
		return 'G'
	}
	return 'N'
}

// Conflict implements the matrix of DESIGN.md appendix B.
func Conflict(a, b *Call) bool {
	ca, cb := class(a.Method), class(b.Method)
	if ca == 'N' || cb == 'N' {
		return false
	}
	if ca == 'G' || cb == 'G' {
		return true
	}
	same := a.PathKey == b.PathKey
	if (ca == 'W' || cb == 'W') && same {
		return true
	}
	// UnlinkAt(p, n) excludes every call on p/n
	if a.Method == "UnlinkAt" && childKey(a) == b.PathKey {
		return true
	}
	if b.Method == "UnlinkAt" && childKey(b) == a.PathKey {
		return true
	}
	return false
}

func childKey(c *Call) string {
	if c.Path == "/" {
		return "/" + c.Name
	}
	return c.Path + "/" + c.Name
}

func (fs *FS) call(h *Handle, method string) *Call {
	c := &Call{Method: method, H: h, Path: h.Path(), Kind: -1}
	c.PathKey = c.Path
	if h.gone {
		c.PathKey = fmt.Sprintf("gone#%d:%s", h.bound.Ino, c.Path)
	}
	if n := h.node(); n != nil {
		c.Kind = n.Kind
	}
	return c
}

func (fs *FS) begin(c *Call) {
	c.Seq = fs.NCalls
	fs.NCalls++
	fs.ByMethod.Set(c.Method, fs.ByMethod.Get(c.Method)+1)
	c.Task = simrt.Current()
	if c.Task != nil {
		c.Req = c.Task.Local.Get("inherit.req")
		c.Conn = c.Task.Local.Get("inherit.conn")
	}
	c.EnterAt = simrt.Steps()
	if fs.KeepCalls {
		fs.Calls = simrt.Push(fs.Calls, c)
	}
	h := c.H
	if h != nil {
		if h.Closes > 0 && c.Method != "Close" {
			h.UsedAfterClose++
			fs.viol("C05", "use-after-close", h.CreatedBy, "%s on handle %d (%s, from %s) after its Close", c.Method, h.ID, c.Path, h.CreatedBy)
		}
		if c.Method == "Close" && h.active > 0 {
			fs.viol("C05", "close-during-call", h.CreatedBy, "Close on handle %d (%s) while %d call(s) on it are running", h.ID, c.Path, h.active)
		}
		h.active++
		// coherence: a live, still-linked handle must resolve to its object
		// (only for read/write-class calls: those are excluded from renames by
		// the contract, whereas a no-guarantee call such as StatFS may land
		// between RenameAt and the Renamed notifications, when paths are in flux)
		if !h.gone && h.pinned == nil && (class(c.Method) == 'R' || class(c.Method) == 'W') {
			if got := h.resolve(); got != h.bound {
				gi := uint64(0)
				if got != nil {
					gi = got.Ino
				}
				fs.viol("C08", "stale-path", c.Method, "%s on handle %d: path %s resolves to inode %d, handle was bound to inode %d", c.Method, h.ID, c.Path, gi, h.bound.Ino)
			}
		}
	}
	// C09: no unsafe path component ever reaches the backend, and walks with
	// a name are only asked of directories.
	var comps []string
	switch c.Method {
	case "Walk", "WalkGetAttr":
		comps = c.Names
		if len(c.Names) > 0 && c.Kind != Dir && c.Kind != -1 {
			fs.viol("C09", "walk-from-non-directory", c.Method, "%s asked to walk %q from a %s", c.Method, c.Names, c.Kind)
		}
		if len(c.Names) > 1 {
			fs.viol("C09", "multi-component-backend-walk", c.Method, "%s asked to walk %d components at once: %q", c.Method, len(c.Names), c.Names)
		}
	case "Create", "Mkdir", "Mknod", "UnlinkAt", "Link", "Symlink", "Renamed":
		comps = []string{c.Name}
	case "RenameAt":
		comps = []string{c.Name, c.Name2}
	}
	for _, n := range comps {
		if n == "" || n == "." || n == ".." || strings.Contains(n, "/") {
			fs.viol("C09", "unsafe-name-reached-backend", c.Method, "%s received path component %q", c.Method, n)
		}
	}
	if !fs.NoOverlapCheck {
		for _, o := range fs.active {
			key := o.Method + "|" + c.Method
			fs.Overlaps.Set(key, fs.Overlaps.Get(key)+1)
			if Conflict(o, c) {
				fs.viol("C07", "overlap", o.Method+"|"+c.Method, "%s entered while %s is running", c, o)
			}
		}
	}
	c.Active = true
	fs.active = simrt.Push(fs.active, c)
	if simrt.Tracing() {
		simrt.Event("fs enter %s", c)
	}
	if fs.OnEnter != nil {
		fs.OnEnter(c)
	}
	if fs.Hold != nil && fs.Hold(c) {
		c.Held = true
		simrt.Fault("backend.call-stalled")
		simrt.Probe("fs.held")
		simrt.Block("held in "+c.Method, func() bool { return !c.Held })
	} else {
		simrt.Yield("fs." + c.Method)
	}
}

func (fs *FS) end(c *Call) {
	if r := recover(); r != nil {
		fs.finish(c)
		panic(r)
	}
	simrt.Yield("fs." + c.Method + ".ret")
	fs.finish(c)
}

func (fs *FS) finish(c *Call) {
	if fs.Post != nil && !c.Faulted {
		fs.Post(c)
	}
	c.Active = false
	c.ExitAt = simrt.Steps()
	for i, o := range fs.active {
		if o == c {
			fs.active = simrt.RemoveAt(simrt.Clone(fs.active), i)
			break
		}
	}
	if c.H != nil {
		c.H.active--
	}
	if simrt.Tracing() {
		simrt.Event("fs exit  %s", c)
	}
	if fs.OnExit != nil {
		fs.OnExit(c)
	}
}

// fault applies the fault plan; true means the body must not run.
func (fs *FS) fault(c *Call) bool {
	if fs.FaultFn == nil {
		return false
	}
	f := fs.FaultFn(c)
	if f == nil {
		return false
	}
	if f.Panic != "" {
		c.Faulted = true
		c.Panicked = true
		simrt.Fault("backend.panic")
		if f.PanicVal != nil {
			panic(f.PanicVal)
		}
		panic(f.Panic)
	}
	if f.Err != nil {
		c.Faulted = true
		c.Err = f.Err
		simrt.Fault("backend.error")
		return true
	}
	if f.Short > 0 && (c.Method == "ReadAt" || c.Method == "WriteAt") {
		if int(c.Count) > f.Short {
			c.Count = uint32(f.Short)
			simrt.Fault("backend.short")
		}
	}
	return false
}

func (fs *FS) script(c *Call) {
	if fs.Script != nil {
		fs.Script(c)
	}
}

// ActiveCalls returns the calls currently between enter and exit.
func (fs *FS) ActiveCalls() []*Call { return simrt.Clone(fs.active) }

// Release lets a held call continue.
func (c *Call) Release() { c.Held = false }

func (fs *FS) qid(i *Inode) p9.QID {
	return p9.QID{Type: i.Kind.Mode().QIDType(), Version: uint32(i.Gen), Path: i.Ino}
}

func (fs *FS) attr(i *Inode) p9.Attr {
	a := p9.Attr{
		Mode:             i.Kind.Mode() | i.Perm,
		UID:              i.UID,
		GID:              i.GID,
		NLink:            p9.NLink(i.NLink),
		Size:             uint64(len(i.Data)),
		BlockSize:        4096,
		Blocks:           uint64((len(i.Data) + 511) / 512),
		ATimeSeconds:     i.ATime,
		MTimeSeconds:     i.MTime,
		CTimeSeconds:     i.MTime,
		ATimeNanoSeconds: 1, MTimeNanoSeconds: 2, CTimeNanoSeconds: 3,
		BTimeSeconds: 4, BTimeNanoSeconds: 5,
		Gen:         i.Gen,
		DataVersion: uint64(i.Ino) << 8,
	}
	if i.Kind == Chr || i.Kind == Blk {
		a.RDev = p9.Dev(uint64(i.Major)<<8 | uint64(i.Minor))
	}
	if i.Kind == Symlink {
		a.Size = uint64(len(i.Target))
	}
	if i.Kind == Dir {
		a.Size = uint64(len(i.names))
	}
	return a
}

// ------------------------------------------------------------ p9.File

var _ p9.File = (*Handle)(nil)

func cpNames(n []string) []string {
	if n == nil {
		return nil
	}
	return append([]string{}, n...)
}

func (h *Handle) walk(c *Call, names []string) (*Handle, error) {
	fs := h.fs
	cur := h.node()
	if cur == nil {
		return nil, linux.ENOENT
	}
	if len(names) == 0 {
		nh := fs.newHandle(h.parent, h.name, cur, c.Method)
		nh.cpath = append([]string{}, h.cpath...)
		nh.gone = h.gone
		if h.gone || h.resolve() != cur {
			// cloning an unlinked-but-open object: the clone denotes it too
			nh.pinned = cur
		}
		if fs.CloneQIDs {
			c.RQIDs = []p9.QID{fs.qid(cur)}
		}
		return nh, nil
	}
	from := h
	for _, n := range names {
		if cur.Kind != Dir {
			// a backend walking through a non-directory: report it; the
			// server must never ask for this (C09)
			return nil, linux.ENOTDIR
		}
		next := cur.kids.Get(n)
		if next == nil {
			return nil, linux.ENOENT
		}
		nh := fs.newHandle(from, n, next, c.Method)
		c.RQIDs = append(c.RQIDs, fs.qid(next))
		if from != h {
			// intermediate handles of a multi-name backend walk are ours to drop
			from.Closes++
		}
		from, cur = nh, next
	}
	return from, nil
}

func (h *Handle) Walk(names []string) ([]p9.QID, p9.File, error) {
	fs := h.fs
	c := fs.call(h, "Walk")
	c.Names = cpNames(names)
	fs.begin(c)
	defer fs.end(c)
	if fs.fault(c) {
		return nil, nil, c.Err
	}
	nh, err := h.walk(c, names)
	if err != nil {
		c.Err = err
		return nil, nil, err
	}
	c.RFile = nh
	fs.script(c)
	return c.RQIDs, nh, nil
}

func (h *Handle) WalkGetAttr(names []string) ([]p9.QID, p9.File, p9.AttrMask, p9.Attr, error) {
	fs := h.fs
	if fs.WalkGetAttrENOSYS {
		return nil, nil, p9.AttrMask{}, p9.Attr{}, linux.ENOSYS
	}
	c := fs.call(h, "WalkGetAttr")
	c.Names = cpNames(names)
	fs.begin(c)
	defer fs.end(c)
	if fs.fault(c) {
		return nil, nil, p9.AttrMask{}, p9.Attr{}, c.Err
	}
	nh, err := h.walk(c, names)
	if err != nil {
		c.Err = err
		return nil, nil, p9.AttrMask{}, p9.Attr{}, err
	}
	c.RFile = nh
	c.RValid = p9.AttrMaskAll
	c.RAttr = fs.attr(nh.node())
	fs.script(c)
	return c.RQIDs, nh, c.RValid, c.RAttr, nil
}

func (h *Handle) StatFS() (p9.FSStat, error) {
	fs := h.fs
	c := fs.call(h, "StatFS")
	fs.begin(c)
	defer fs.end(c)
	if fs.fault(c) {
		return p9.FSStat{}, c.Err
	}
	c.RStat = p9.FSStat{Type: 0x01021997, BlockSize: 4096, Blocks: 1 << 20, BlocksFree: 1 << 19, BlocksAvailable: 1 << 18, Files: fs.nextIno, FilesFree: 1 << 30, FSID: 0xfeedface, NameLength: 255}
	fs.script(c)
	return c.RStat, nil
}

func (h *Handle) GetAttr(req p9.AttrMask) (p9.QID, p9.AttrMask, p9.Attr, error) {
	fs := h.fs
	c := fs.call(h, "GetAttr")
	c.Mask = req
	fs.begin(c)
	defer fs.end(c)
	if fs.fault(c) {
		return p9.QID{}, p9.AttrMask{}, p9.Attr{}, c.Err
	}
	n := h.node()
	if n == nil {
		c.Err = linux.ENOENT
		return p9.QID{}, p9.AttrMask{}, p9.Attr{}, c.Err
	}
	c.RQID, c.RValid, c.RAttr = fs.qid(n), p9.AttrMaskAll, fs.attr(n)
	fs.script(c)
	return c.RQID, c.RValid, c.RAttr, nil
}

func (h *Handle) SetAttr(valid p9.SetAttrMask, attr p9.SetAttr) error {
	fs := h.fs
	c := fs.call(h, "SetAttr")
	c.SetMask, c.SetAttr = valid, attr
	fs.begin(c)
	defer fs.end(c)
	if fs.fault(c) {
		return c.Err
	}
	n := h.node()
	if n == nil {
		c.Err = linux.ENOENT
		return c.Err
	}
	// deliberately a read-modify-write with a scheduling point in between:
	// exclusive access is promised by the contract
	if valid.Permissions {
		n.Perm = attr.Permissions & 0o7777
	}
	if valid.UID {
		n.UID = attr.UID
	}
	if valid.GID {
		n.GID = attr.GID
	}
	if valid.Size {
		if n.Kind != Reg {
			c.Err = linux.EINVAL
			return c.Err
		}
		if attr.Size > 1<<24 {
			c.Err = linux.EFBIG
			return c.Err
		}
		d := make([]byte, attr.Size)
		copy(d, n.Data)
		n.Data = d
	}
	if valid.MTime {
		n.MTime++
		if valid.MTimeNotSystemTime {
			n.MTime = attr.MTimeSeconds
		}
	}
	if valid.ATime {
		n.ATime++
		if valid.ATimeNotSystemTime {
			n.ATime = attr.ATimeSeconds
		}
	}
	return nil
}

func (h *Handle) Close() error {
	fs := h.fs
	c := fs.call(h, "Close")
	// Close on an already-closed handle is reported as double-close rather
	// than use-after-close.
	if h.Closes > 0 {
		fs.viol("C05", "double-close", h.CreatedBy, "Close #%d on handle %d (%s, from %s)", h.Closes+1, h.ID, c.Path, h.CreatedBy)
	}
	fs.begin(c)
	defer fs.end(c)
	h.Closes++
	if fs.fault(c) {
		return c.Err
	}
	return nil
}

func (h *Handle) Open(mode p9.OpenFlags) (p9.QID, uint32, error) {
	fs := h.fs
	c := fs.call(h, "Open")
	c.Flags = uint32(mode)
	fs.begin(c)
	defer fs.end(c)
	// an Open that failed (or panicked) may be retried; count successes and
	// opens that are in progress
	if h.Opens+h.opening > 0 {
		fs.viol("C07", "open-twice", "Open", "Open invoked again on handle %d (%s): %d succeeded, %d in progress", h.ID, c.Path, h.Opens, h.opening)
	}
	h.opening++
	defer func() { h.opening-- }()
	if fs.fault(c) {
		return p9.QID{}, 0, c.Err
	}
	n := h.node()
	if n == nil {
		c.Err = linux.ENOENT
		return p9.QID{}, 0, c.Err
	}
	h.Opens++
	h.pinned = n
	if mode&0o1000 != 0 && n.Kind == Reg { // O_TRUNC
		n.Data = nil
	}
	c.RQID, c.RIoUnit = fs.qid(n), fs.IoUnit
	fs.script(c)
	return c.RQID, c.RIoUnit, nil
}

func (h *Handle) ReadAt(p []byte, offset int64) (int, error) {
	fs := h.fs
	c := fs.call(h, "ReadAt")
	c.Offset, c.Count = uint64(offset), uint32(len(p))
	fs.begin(c)
	defer fs.end(c)
	if fs.fault(c) {
		return 0, c.Err
	}
	n := h.node()
	if n == nil {
		c.Err = linux.ENOENT
		return 0, c.Err
	}
	if n.Kind == Dir {
		c.Err = linux.EISDIR
		return 0, c.Err
	}
	if offset < 0 || offset >= int64(len(n.Data)) {
		c.Err = io.EOF
		return 0, io.EOF
	}
	k := copy(p[:c.Count], n.Data[offset:])
	c.RN = k
	if fs.KeepCalls {
		c.RData = append([]byte{}, p[:k]...)
	}
	if k < len(p) && int(c.Count) == len(p) {
		c.Err = io.EOF
		return k, io.EOF
	}
	return k, nil
}

func (h *Handle) WriteAt(p []byte, offset int64) (int, error) {
	fs := h.fs
	c := fs.call(h, "WriteAt")
	c.Offset, c.Count = uint64(offset), uint32(len(p))
	if fs.KeepCalls {
		c.Data = append([]byte{}, p...)
	}
	fs.begin(c)
	defer fs.end(c)
	if fs.fault(c) {
		return 0, c.Err
	}
	n := h.node()
	if n == nil {
		c.Err = linux.ENOENT
		return 0, c.Err
	}
	if n.Kind == Dir {
		c.Err = linux.EISDIR
		return 0, c.Err
	}
	if offset < 0 || offset+int64(c.Count) > 1<<24 {
		c.Err = linux.EFBIG
		return 0, c.Err
	}
	end := int(offset) + int(c.Count)
	if end > len(n.Data) {
		d := make([]byte, end)
		copy(d, n.Data)
		n.Data = d
	}
	copy(n.Data[offset:], p[:c.Count])
	n.MTime++
	c.RN = int(c.Count)
	return c.RN, nil
}

func (h *Handle) FSync() error {
	fs := h.fs
	c := fs.call(h, "FSync")
	fs.begin(c)
	defer fs.end(c)
	if fs.fault(c) {
		return c.Err
	}
	return nil
}

func (h *Handle) Lock(pid int, locktype p9.LockType, flags p9.LockFlags, start, length uint64, client string) (p9.LockStatus, error) {
	fs := h.fs
	c := fs.call(h, "Lock")
	c.LockArgs = [6]uint64{uint64(int64(pid)), uint64(locktype), uint64(flags), start, length, 0} // the pid as the File got it, sign and all
	c.Client = client
	fs.begin(c)
	defer fs.end(c)
	if fs.fault(c) {
		return p9.LockStatusError, c.Err
	}
	c.RLock = p9.LockStatusOK
	fs.script(c)
	return c.RLock, nil
}

func (h *Handle) dirForWrite(c *Call) (*Inode, error) {
	n := h.node()
	if n == nil {
		return nil, linux.ENOENT
	}
	if n.Kind != Dir {
		return nil, linux.ENOTDIR
	}
	return n, nil
}

func (h *Handle) Create(name string, flags p9.OpenFlags, permissions p9.FileMode, uid p9.UID, gid p9.GID) (p9.File, p9.QID, uint32, error) {
	fs := h.fs
	c := fs.call(h, "Create")
	c.Name, c.Flags, c.Mode, c.UID, c.GID = name, uint32(flags), permissions, uid, gid
	fs.begin(c)
	defer fs.end(c)
	if fs.fault(c) {
		return nil, p9.QID{}, 0, c.Err
	}
	d, err := h.dirForWrite(c)
	if err != nil {
		c.Err = err
		return nil, p9.QID{}, 0, err
	}
	if d.kids.Get(name) != nil {
		c.Err = linux.EEXIST
		return nil, p9.QID{}, 0, c.Err
	}
	simrt.Yield("fs.Create.mid") // non-atomic check-then-insert: relies on write exclusion
	n := fs.newInode(Reg, permissions)
	n.UID, n.GID = uid, gid
	d.link(name, n)
	nh := fs.newHandle(h, name, n, "Create")
	nh.pinned = n
	nh.Opens = 1
	c.RFile, c.RQID, c.RIoUnit = nh, fs.qid(n), fs.IoUnit
	fs.script(c)
	return nh, c.RQID, c.RIoUnit, nil
}

func (h *Handle) mk(c *Call, name string, k Kind, perm p9.FileMode, uid p9.UID, gid p9.GID) (*Inode, error) {
	fs := h.fs
	d, err := h.dirForWrite(c)
	if err != nil {
		return nil, err
	}
	if d.kids.Get(name) != nil {
		return nil, linux.EEXIST
	}
	simrt.Yield("fs.mk.mid")
	n := fs.newInode(k, perm)
	n.UID, n.GID = uid, gid
	d.link(name, n)
	return n, nil
}

func (h *Handle) Mkdir(name string, permissions p9.FileMode, uid p9.UID, gid p9.GID) (p9.QID, error) {
	fs := h.fs
	c := fs.call(h, "Mkdir")
	c.Name, c.Mode, c.UID, c.GID = name, permissions, uid, gid
	fs.begin(c)
	defer fs.end(c)
	if fs.fault(c) {
		return p9.QID{}, c.Err
	}
	n, err := h.mk(c, name, Dir, permissions, uid, gid)
	if err != nil {
		c.Err = err
		return p9.QID{}, err
	}
	c.RQID = fs.qid(n)
	fs.script(c)
	return c.RQID, nil
}

func (h *Handle) Symlink(oldName string, newName string, uid p9.UID, gid p9.GID) (p9.QID, error) {
	fs := h.fs
	c := fs.call(h, "Symlink")
	c.Name, c.Name2, c.UID, c.GID = newName, oldName, uid, gid
	fs.begin(c)
	defer fs.end(c)
	if fs.fault(c) {
		return p9.QID{}, c.Err
	}
	n, err := h.mk(c, newName, Symlink, 0o777, uid, gid)
	if err != nil {
		c.Err = err
		return p9.QID{}, err
	}
	n.Target = oldName
	c.RQID = fs.qid(n)
	fs.script(c)
	return c.RQID, nil
}

func (h *Handle) Link(target p9.File, newName string) error {
	fs := h.fs
	c := fs.call(h, "Link")
	c.Name = newName
	th, _ := target.(*Handle)
	c.Target = th
	fs.begin(c)
	defer fs.end(c)
	if fs.fault(c) {
		return c.Err
	}
	d, err := h.dirForWrite(c)
	if err != nil {
		c.Err = err
		return err
	}
	if th == nil {
		c.Err = linux.EINVAL
		return c.Err
	}
	tn := th.node()
	if tn == nil {
		c.Err = linux.ENOENT
		return c.Err
	}
	if tn.Kind == Dir {
		c.Err = linux.EPERM
		return c.Err
	}
	if d.kids.Get(newName) != nil {
		c.Err = linux.EEXIST
		return c.Err
	}
	d.link(newName, tn)
	return nil
}

func (h *Handle) Mknod(name string, mode p9.FileMode, major uint32, minor uint32, uid p9.UID, gid p9.GID) (p9.QID, error) {
	fs := h.fs
	c := fs.call(h, "Mknod")
	c.Name, c.Mode, c.Major, c.Minor, c.UID, c.GID = name, mode, major, minor, uid, gid
	fs.begin(c)
	defer fs.end(c)
	if fs.fault(c) {
		return p9.QID{}, c.Err
	}
	k := KindOfMode(mode)
	if k == Dir || k == Symlink {
		c.Err = linux.EINVAL
		return p9.QID{}, c.Err
	}
	n, err := h.mk(c, name, k, mode, uid, gid)
	if err != nil {
		c.Err = err
		return p9.QID{}, err
	}
	n.Major, n.Minor = major, minor
	c.RQID = fs.qid(n)
	fs.script(c)
	return c.RQID, nil
}

func (h *Handle) Rename(newDir p9.File, newName string) error {
	h.fs.viol("C03", "rename-on-server", "Rename", "File.Rename invoked on a server-side File (handle %d %s)", h.ID, h.Path())
	return linux.ENOSYS
}

// markGone flags every live handle that denotes dir/name (or something below it).
func (fs *FS) markGone(dir *Inode, name string) {
	victim := dir.kids.Get(name)
	if victim == nil {
		return
	}
	for _, h := range fs.Handles {
		if h.Closes > 0 || h.gone {
			continue
		}
		// is the entry (dir,name) on h's path?
		for x := h; x != nil && x.parent != nil; x = x.parent {
			if x.gone {
				// below an entry that is already gone (possible only when the
				// backend removes non-empty directories)
				if x != h {
					h.gone = true
				}
				break
			}
			if x.name == name && x.parent.resolve() == dir {
				h.gone = true
				break
			}
		}
	}
}

func (h *Handle) RenameAt(oldName string, newDir p9.File, newName string) error {
	fs := h.fs
	c := fs.call(h, "RenameAt")
	c.Name, c.Name2 = oldName, newName
	th, _ := newDir.(*Handle)
	c.Target = th
	fs.begin(c)
	defer fs.end(c)
	if fs.fault(c) {
		return c.Err
	}
	src, err := h.dirForWrite(c)
	if err != nil {
		c.Err = err
		return err
	}
	if th == nil {
		c.Err = linux.EINVAL
		return c.Err
	}
	dst := th.node()
	if dst == nil {
		c.Err = linux.ENOENT
		return c.Err
	}
	if dst.Kind != Dir {
		c.Err = linux.ENOTDIR
		return c.Err
	}
	obj := src.kids.Get(oldName)
	if obj == nil {
		c.Err = linux.ENOENT
		return c.Err
	}
	if src == dst && oldName == newName {
		return nil
	}
	// moving a directory below itself
	if obj.Kind == Dir {
		for x := th; x != nil; x = x.parent {
			if x.node() == obj {
				c.Err = linux.EINVAL
				return c.Err
			}
		}
	}
	if old := dst.kids.Get(newName); old != nil {
		// onto a directory that contains the source: nonsense for any backend
		for x := h; x != nil; x = x.parent {
			if x.node() == old {
				c.Err = linux.EINVAL
				return c.Err
			}
		}
		if old.Kind == Dir && len(old.names) > 0 && !fs.RecursiveRemove {
			c.Err = linux.ENOTEMPTY
			return c.Err
		}
		if old.Kind == Dir && obj.Kind != Dir {
			c.Err = linux.EISDIR
			return c.Err
		}
		if old.Kind != Dir && obj.Kind == Dir {
			c.Err = linux.ENOTDIR
			return c.Err
		}
		fs.markGone(dst, newName)
		dst.unlink(newName)
	}
	// handles on the moved entry keep their (parent,name) until Renamed is
	// delivered; note which ones are expected to be told
	var moved []*Handle
	for _, x := range fs.Handles {
		if x.Closes == 0 && !x.gone && x.parent != nil && x.name == oldName && x.parent.resolve() == src {
			moved = append(moved, x)
		}
	}
	src.unlink(oldName)
	dst.link(newName, obj)
	// Until the server delivers Renamed, handles on the moved entry are in
	// flux; they are checked for coherence from their next use on.
	_ = moved
	return nil
}

func (h *Handle) UnlinkAt(name string, flags uint32) error {
	fs := h.fs
	c := fs.call(h, "UnlinkAt")
	c.Name, c.Flags = name, flags
	fs.begin(c)
	defer fs.end(c)
	if fs.fault(c) {
		return c.Err
	}
	d, err := h.dirForWrite(c)
	if err != nil {
		c.Err = err
		return err
	}
	v := d.kids.Get(name)
	if v == nil {
		c.Err = linux.ENOENT
		return c.Err
	}
	if v.Kind == Dir && len(v.names) > 0 && !fs.RecursiveRemove {
		c.Err = linux.ENOTEMPTY
		return c.Err
	}
	simrt.Yield("fs.UnlinkAt.mid")
	fs.markGone(d, name)
	d.unlink(name)
	return nil
}

func (h *Handle) Readdir(offset uint64, count uint32) (p9.Dirents, error) {
	fs := h.fs
	c := fs.call(h, "Readdir")
	c.Offset, c.Count = offset, count
	fs.begin(c)
	defer fs.end(c)
	if fs.fault(c) {
		return nil, c.Err
	}
	n := h.node()
	if n == nil {
		c.Err = linux.ENOENT
		return nil, c.Err
	}
	if n.Kind != Dir {
		c.Err = linux.ENOTDIR
		return nil, c.Err
	}
	var out p9.Dirents
	if n.Synth > 0 {
		for i := int(offset); uint64(i) < uint64(n.Synth) && offset < uint64(n.Synth); i++ {
			if (fs.ReaddirMax > 0 && len(out) >= fs.ReaddirMax) || uint32(len(out)) >= count {
				break
			}
			out = append(out, p9.Dirent{QID: p9.QID{Type: p9.TypeRegular, Path: uint64(1000000 + i)}, Offset: uint64(i + 1), Type: p9.TypeRegular, Name: fmt.Sprintf("e%05d", i)})
		}
		c.RDir = out
		return out, nil
	}
	for i := int(offset); i < len(n.names) && offset < uint64(len(n.names)); i++ {
		if fs.ReaddirMax > 0 && len(out) >= fs.ReaddirMax {
			break
		}
		if uint32(len(out)) >= count {
			break
		}
		k := n.kids.Get(n.names[i])
		out = append(out, p9.Dirent{QID: fs.qid(k), Offset: uint64(i + 1), Type: k.Kind.Mode().QIDType(), Name: n.names[i]})
	}
	c.RDir = out
	fs.script(c)
	return c.RDir, nil
}

func (h *Handle) Readlink() (string, error) {
	fs := h.fs
	c := fs.call(h, "Readlink")
	fs.begin(c)
	defer fs.end(c)
	if fs.fault(c) {
		return "", c.Err
	}
	n := h.node()
	if n == nil {
		c.Err = linux.ENOENT
		return "", c.Err
	}
	if n.Kind != Symlink {
		c.Err = linux.EINVAL
		return "", c.Err
	}
	c.RStr = n.Target
	fs.script(c)
	return c.RStr, nil
}

func (h *Handle) Renamed(newDir p9.File, newName string) {
	fs := h.fs
	c := fs.call(h, "Renamed")
	c.Name = newName
	th, _ := newDir.(*Handle)
	c.Target = th
	fs.begin(c)
	defer fs.end(c)
	// may not fail: faults are not applied here
	if h.gone && h.Closes == 0 {
		// the entry this handle named was unlinked or overwritten: later
		// renames are about other files, even files of the same name
		fs.viol("C08", "renamed-after-unlink", "Renamed", "Renamed(%s, %q) delivered to handle %d, whose entry (%s) had been removed: the file it is told about is not the one it denotes", th.Path(), newName, h.ID, h.Path())
	}
	if th != nil {
		h.parent = th
		h.cpath = append(append([]string{}, th.cpath...), newName)
	}
	h.name = newName
}

// ---- xattrs

func (h *Handle) SetXattr(attr string, data []byte, flags p9.XattrFlags) error {
	fs := h.fs
	c := fs.call(h, "SetXattr")
	c.Name, c.Data, c.Flags = attr, append([]byte{}, data...), uint32(flags)
	fs.begin(c)
	defer fs.end(c)
	if fs.fault(c) {
		return c.Err
	}
	n := h.node()
	if n == nil {
		c.Err = linux.ENOENT
		return c.Err
	}
	exists := n.xattrs.Has(attr)
	if flags == p9.XattrCreate && exists {
		c.Err = linux.EEXIST
		return c.Err
	}
	if flags == p9.XattrReplace && !exists {
		c.Err = linux.ENODATA
		return c.Err
	}
	if !exists {
		n.xnames = simrt.Push(n.xnames, attr)
	}
	n.xattrs.Set(attr, append([]byte{}, data...))
	return nil
}

func (h *Handle) GetXattr(attr string) ([]byte, error) {
	fs := h.fs
	c := fs.call(h, "GetXattr")
	c.Name = attr
	fs.begin(c)
	defer fs.end(c)
	if fs.fault(c) {
		return nil, c.Err
	}
	n := h.node()
	if n == nil {
		c.Err = linux.ENOENT
		return nil, c.Err
	}
	v, ok := n.xattrs.Get2(attr)
	if !ok {
		// scripted mode: the generator decides what the attribute holds
		c.RData = nil
		fs.script(c)
		if c.RData != nil {
			return append([]byte{}, c.RData...), nil
		}
		c.Err = linux.ENODATA
		return nil, c.Err
	}
	c.RData = append([]byte{}, v...)
	fs.script(c)
	return append([]byte{}, c.RData...), nil
}

func (h *Handle) ListXattrs() ([]string, error) {
	fs := h.fs
	c := fs.call(h, "ListXattrs")
	fs.begin(c)
	defer fs.end(c)
	if fs.fault(c) {
		return nil, c.Err
	}
	n := h.node()
	if n == nil {
		c.Err = linux.ENOENT
		return nil, c.Err
	}
	c.RStrs = append([]string{}, n.xnames...)
	fs.script(c)
	return append([]string{}, c.RStrs...), nil
}

func (h *Handle) RemoveXattr(attr string) error {
	fs := h.fs
	c := fs.call(h, "RemoveXattr")
	c.Name = attr
	fs.begin(c)
	defer fs.end(c)
	if fs.fault(c) {
		return c.Err
	}
	n := h.node()
	if n == nil {
		c.Err = linux.ENOENT
		return c.Err
	}
	if !n.xattrs.Has(attr) {
		c.Err = linux.ENODATA
		return c.Err
	}
	n.xattrs.Del(attr)
	for i, x := range n.xnames {
		if x == attr {
			n.xnames = simrt.RemoveAt(simrt.Clone(n.xnames), i)
			break
		}
	}
	return nil
}

// SetXattrDirect installs an xattr without going through the call log.
func (i *Inode) SetXattrDirect(name string, v []byte) {
	if !i.xattrs.Has(name) {
		i.xnames = append(i.xnames, name)
	}
	i.xattrs.Set(name, v)
}

// LifecycleReport checks, at the end of a run, that every handle was closed
// exactly once.
func (fs *FS) LifecycleReport() []Violation {
	var out []Violation
	for _, h := range fs.Handles {
		if h.Closes == 0 {
			out = append(out, Violation{Prop: "C05", Oracle: "leak", Key: "leak:" + h.CreatedBy, Detail: fmt.Sprintf("handle %d (%s, from %s) was never closed", h.ID, h.Path(), h.CreatedBy)})
		}
	}
	return out
}

// LiveHandles returns handles not yet closed.
func (fs *FS) LiveHandles() []*Handle {
	var out []*Handle
	for _, h := range fs.Handles {
		if h.Closes == 0 {
			out = append(out, h)
		}
	}
	return out
}

// CheckCoherence verifies that every live, still linked, unopened handle
// resolves to the object it was bound to (C08); call at quiescence.
func (fs *FS) CheckCoherence() []Violation {
	var out []Violation
	for _, h := range fs.Handles {
		if h.Closes > 0 || h.gone || h.pinned != nil {
			continue
		}
		if got := h.resolve(); got != h.bound {
			gi := uint64(0)
			if got != nil {
				gi = got.Ino
			}
			out = append(out, Violation{Prop: "C08", Oracle: "stale-path", Key: "stale-path:quiescent", Detail: fmt.Sprintf("handle %d: path %s resolves to inode %d, bound to inode %d", h.ID, h.Path(), gi, h.bound.Ino)})
		}
	}
	return out
}

// Dump renders the tree (sorted) for traces and isolation comparisons.
func (fs *FS) Dump() string {
	var sb strings.Builder
	var rec func(p string, n *Inode)
	rec = func(p string, n *Inode) {
		fmt.Fprintf(&sb, "%s %s", p, n.Kind)
		if n.Kind == Reg {
			fmt.Fprintf(&sb, " %q", n.Data)
		}
		sb.WriteString("\n")
		if n.Kind == Dir {
			names := append([]string{}, n.names...)
			sort.Strings(names)
			for _, c := range names {
				rec(p+"/"+c, n.kids.Get(c))
			}
		}
	}
	rec("", fs.Root)
	return sb.String()
}
