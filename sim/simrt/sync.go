package simrt

import (
	"fmt"
	"runtime"
	"strings"
	"sync"
	"unsafe"
)

// ------------------------------------------------------------------ Mutex

//go:norace
func MutexLock(m *sync.Mutex) {
	s := act
	if s == nil {
		m.Lock()
		return
	}
	desc := "Mutex.Lock"
	if s.cfg.Trace {
		if h := s.mutexes.Get(m); h != nil {
			desc = fmt.Sprintf("Mutex.Lock(%p held by t%d %s) at %s", m, h.ID, h.Name, caller())
		}
	}
	s.yield(func() bool { return s.mutexes.Get(m) == nil }, false, desc)
	if !m.TryLock() {
		fatal("model says mutex %p free, real TryLock failed", m)
	}
	s.mutexes.Set(m, s.cur)
}

//go:norace
func MutexTryLock(m *sync.Mutex) bool {
	s := act
	if s == nil {
		return m.TryLock()
	}
	s.yield(nil, false, "Mutex.TryLock")
	if s.mutexes.Get(m) != nil {
		return false
	}
	if !m.TryLock() {
		fatal("model says mutex %p free, real TryLock failed", m)
	}
	s.mutexes.Set(m, s.cur)
	return true
}

//go:norace
func MutexUnlock(m *sync.Mutex) {
	s := act
	if s == nil {
		m.Unlock()
		return
	}
	s.mutexes.Del(m)
	// An unlock of an unlocked mutex is a fatal runtime error in Go; let the
	// real primitive report it.
	m.Unlock()
}

// ---------------------------------------------------------------- RWMutex
//
// The model mirrors Go's implementation: writers first take an internal
// mutex (w), then announce themselves, which blocks every reader arriving
// later, and wait for the readers active at that moment to leave.  Readers
// that arrived while a writer was announced are all admitted when that writer
// unlocks, before the next writer can announce.

type rwState struct {
	w         *Task // holder of the internal writer mutex (announced or holding)
	held      bool  // writer has acquired
	active    int   // readers holding the lock
	admitted  PMap[*Task, bool]
	waitingRd PMap[*Task, bool]
}

//go:norace
func (s *sched) rw(m *sync.RWMutex) *rwState {
	st := s.rws.Get(m)
	if st == nil {
		st = &rwState{}
		s.rws.Set(m, st)
	}
	return st
}

//go:norace
func RWRLock(m *sync.RWMutex) {
	s := act
	if s == nil {
		m.RLock()
		return
	}
	st := s.rw(m)
	// arrival
	s.yield(nil, false, "RWMutex.RLock")
	t := s.cur
	if st.w != nil {
		// a writer is announced or holding: wait to be admitted by its Unlock
		st.waitingRd.Set(t, true)
		s.yield(func() bool { return st.admitted.Get(t) }, false, "RWMutex.RLock(wait writer)")
		st.admitted.Del(t)
	} else {
		st.active++
	}
	if !m.TryRLock() {
		fatal("model says rwmutex %p readable, real TryRLock failed", m)
	}
}

//go:norace
func RWTryRLock(m *sync.RWMutex) bool {
	s := act
	if s == nil {
		return m.TryRLock()
	}
	st := s.rw(m)
	s.yield(nil, false, "RWMutex.TryRLock")
	if st.w != nil {
		return false
	}
	st.active++
	if !m.TryRLock() {
		fatal("model says rwmutex %p readable, real TryRLock failed", m)
	}
	return true
}

//go:norace
func RWRUnlock(m *sync.RWMutex) {
	s := act
	if s == nil {
		m.RUnlock()
		return
	}
	st := s.rw(m)
	if st.active > 0 {
		st.active--
	}
	m.RUnlock()
}

//go:norace
func RWLock(m *sync.RWMutex) {
	s := act
	if s == nil {
		m.Lock()
		return
	}
	st := s.rw(m)
	desc := "RWMutex.Lock"
	if s.cfg.Trace {
		hn := "-"
		if st.w != nil {
			hn = st.w.Name
		}
		desc = fmt.Sprintf("RWMutex.Lock(%p writer=%s readers=%d) at %s", m, hn, st.active, caller())
	}
	s.yield(func() bool { return st.w == nil }, false, desc)
	st.w = s.cur // announced: later readers block
	if st.active > 0 {
		s.yield(func() bool { return st.active == 0 }, false, "RWMutex.Lock(wait readers)")
	}
	st.held = true
	if !m.TryLock() {
		fatal("model says rwmutex %p writable, real TryLock failed", m)
	}
}

//go:norace
func RWTryLock(m *sync.RWMutex) bool {
	s := act
	if s == nil {
		return m.TryLock()
	}
	st := s.rw(m)
	s.yield(nil, false, "RWMutex.TryLock")
	if st.w != nil || st.active > 0 {
		return false
	}
	st.w = s.cur
	st.held = true
	if !m.TryLock() {
		fatal("model says rwmutex %p writable, real TryLock failed", m)
	}
	return true
}

//go:norace
func RWUnlock(m *sync.RWMutex) {
	s := act
	if s == nil {
		m.Unlock()
		return
	}
	st := s.rw(m)
	m.Unlock()
	st.held = false
	st.w = nil
	// admit every reader that was blocked by this writer
	for st.waitingRd.Len() > 0 {
		t, _ := st.waitingRd.At(0)
		st.admitted.Set(t, true)
		st.active++
		st.waitingRd.Del(t)
	}
}

// -------------------------------------------------------------- WaitGroup

type wgState struct{ n int }

//go:norace
func (s *sched) wg(w *sync.WaitGroup) *wgState {
	st := s.wgs.Get(w)
	if st == nil {
		st = &wgState{}
		s.wgs.Set(w, st)
	}
	return st
}

//go:norace
func WGAdd(w *sync.WaitGroup, n int) {
	s := act
	if s == nil {
		w.Add(n)
		return
	}
	st := s.wg(w)
	st.n += n
	w.Add(n)
}

//go:norace
func WGDone(w *sync.WaitGroup) { WGAdd(w, -1) }

//go:norace
func WGWait(w *sync.WaitGroup) {
	s := act
	if s == nil {
		w.Wait()
		return
	}
	st := s.wg(w)
	s.yield(func() bool { return st.n == 0 }, false, "WaitGroup.Wait")
	w.Wait()
}

// ------------------------------------------------------------------- Once

type onceState struct {
	running *Task
	done    bool
}

//go:norace
func OnceDo(o *sync.Once, f func()) {
	s := act
	if s == nil {
		o.Do(f)
		return
	}
	st := s.onces.Get(o)
	if st == nil {
		st = &onceState{}
		s.onces.Set(o, st)
	}
	s.yield(func() bool { return st.running == nil }, false, "Once.Do")
	if st.done {
		o.Do(func() {})
		return
	}
	st.running = s.cur
	defer func() { st.done = true; st.running = nil }()
	o.Do(f)
}

// ------------------------------------------------------------------- Cond

type condState struct {
	waiters []*Task
	woken   PMap[*Task, bool]
}

//go:norace
func (s *sched) cond(c *sync.Cond) *condState {
	st := s.conds.Get(c)
	if st == nil {
		st = &condState{}
		s.conds.Set(c, st)
	}
	return st
}

//go:norace
func lockerUnlock(l sync.Locker) {
	switch m := l.(type) {
	case *sync.Mutex:
		MutexUnlock(m)
	case *sync.RWMutex:
		RWUnlock(m)
	default:
		fatal("sync.Cond with locker %T is not modelled", l)
	}
}

//go:norace
func lockerLock(l sync.Locker) {
	switch m := l.(type) {
	case *sync.Mutex:
		MutexLock(m)
	case *sync.RWMutex:
		RWLock(m)
	default:
		fatal("sync.Cond with locker %T is not modelled", l)
	}
}

// CondWait models sync.Cond.Wait without touching the real Cond.
//
//go:norace
func CondWait(c *sync.Cond) {
	s := act
	if s == nil {
		c.Wait()
		return
	}
	st := s.cond(c)
	t := s.cur
	st.waiters = Push(st.waiters, t)
	lockerUnlock(c.L)
	s.yield(func() bool { return st.woken.Get(t) }, false, "Cond.Wait")
	st.woken.Del(t)
	lockerLock(c.L)
}

//go:norace
func CondSignal(c *sync.Cond) {
	s := act
	if s == nil {
		c.Signal()
		return
	}
	st := s.cond(c)
	if len(st.waiters) > 0 {
		i := s.tape.Choose(len(st.waiters))
		t := st.waiters[i]
		st.waiters = RemoveAt(st.waiters, i)
		st.woken.Set(t, true)
	}
}

//go:norace
func CondBroadcast(c *sync.Cond) {
	s := act
	if s == nil {
		c.Broadcast()
		return
	}
	st := s.cond(c)
	for _, t := range st.waiters {
		st.woken.Set(t, true)
	}
	st.waiters = nil
}

// ------------------------------------------------------------------- Pool
//
// sync.Pool has per-P caches and is cleared by the GC: both are invisible
// nondeterminism.  Under simulation a pool is a LIFO stack that starts empty
// in every run; the tape may force a miss.

type poolState struct{ items []interface{} }

//go:norace
func (s *sched) pool(p *sync.Pool) *poolState {
	st := s.pools.Get(p)
	if st == nil {
		st = &poolState{}
		s.pools.Set(p, st)
	}
	return st
}

//go:norace
func PoolGet(p *sync.Pool) interface{} {
	s := act
	if s == nil {
		return p.Get()
	}
	st := s.pool(p)
	if len(st.items) > 0 && !(s.cfg.PoolMissPct > 0 && s.tape.Choose(100) >= 100-s.cfg.PoolMissPct) {
		x := st.items[len(st.items)-1]
		st.items[len(st.items)-1] = nil
		st.items = st.items[:len(st.items)-1]
		raceAcquire(unsafe.Pointer(p))
		s.probes.Set("pool.hit", s.probes.Get("pool.hit")+1)
		return x
	}
	s.probes.Set("pool.miss", s.probes.Get("pool.miss")+1)
	if p.New != nil {
		return p.New()
	}
	return nil
}

//go:norace
func PoolPut(p *sync.Pool, x interface{}) {
	s := act
	if s == nil {
		p.Put(x)
		return
	}
	if x == nil {
		return
	}
	raceRelease(unsafe.Pointer(p))
	st := s.pool(p)
	st.items = Push(st.items, x)
}

// PreV is a scheduling point placed in front of a method call on an opaque
// synchronisation object (atomic.T, sync.Map): x.M() becomes PreV(&x).M().
//
//go:norace
func PreV[T any](p *T) *T {
	if s := act; s != nil && s.cfg.YieldAtomics {
		s.yield(nil, false, "atomic")
	}
	return p
}

// PreAtomic is the scheduling point in front of an atomic operation.
//
//go:norace
func PreAtomic() {
	if s := act; s != nil && s.cfg.YieldAtomics {
		s.yield(nil, false, "atomic")
	}
}

//go:norace
func caller() string {
	var pcs [8]uintptr
	n := runtime.Callers(3, pcs[:])
	fr := runtime.CallersFrames(pcs[:n])
	out := ""
	for i := 0; i < 4; i++ {
		f, more := fr.Next()
		name := f.Function
		if j := strings.LastIndex(name, "/"); j >= 0 {
			name = name[j+1:]
		}
		out += fmt.Sprintf("%s:%d ", name, f.Line)
		if !more {
			break
		}
	}
	return out
}

// Bind0 builds the replacement for a method value such as `mu.RUnlock`: the
// receiver is bound now, the operation runs (through simrt) when called.
//
//go:norace
func Bind0[T any](f func(*T), p *T) func() { return func() { f(p) } }
