//go:build !race

package simrt

import "unsafe"

// RaceBuild reports whether the binary was built with -race.
const RaceBuild = false

func raceDisable()                 {}
func raceEnable()                  {}
func raceRelease(p unsafe.Pointer) {}
func raceAcquire(p unsafe.Pointer) {}
