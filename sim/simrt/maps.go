package simrt

import (
	"fmt"
	"reflect"
	"sort"
)

// MapKeys returns the keys of m in an order that is a function of the tape
// alone.  Go randomises map iteration; under simulation the keys are first put
// in a canonical order (by value; pointer keys by the serial NoteKey gave them
// when they were inserted) and then permuted by the tape, so the order is both
// replayable and explored.  Outside a run the order is Go's.
//
//go:norace
func MapKeys[K comparable, V any](m map[K]V) []K {
	keys := make([]K, 0, len(m))
	for k := range m {
		keys = append(keys, k)
	}
	s := act
	if s == nil || len(keys) < 2 {
		return keys
	}
	var zero K
	switch reflect.TypeOf(zero).Kind() {
	case reflect.String:
		sort.Slice(keys, func(i, j int) bool { return reflect.ValueOf(keys[i]).String() < reflect.ValueOf(keys[j]).String() })
	case reflect.Int, reflect.Int8, reflect.Int16, reflect.Int32, reflect.Int64:
		sort.Slice(keys, func(i, j int) bool { return reflect.ValueOf(keys[i]).Int() < reflect.ValueOf(keys[j]).Int() })
	case reflect.Uint, reflect.Uint8, reflect.Uint16, reflect.Uint32, reflect.Uint64, reflect.Uintptr:
		sort.Slice(keys, func(i, j int) bool { return reflect.ValueOf(keys[i]).Uint() < reflect.ValueOf(keys[j]).Uint() })
	case reflect.Ptr, reflect.Chan, reflect.UnsafePointer:
		ser := func(k K) uint64 {
			p := reflect.ValueOf(k).Pointer()
			n, ok := s.serial.Get(uint64(p))
			if !ok {
				fatal("MapKeys: pointer key %v was never noted at insertion", k)
			}
			return n
		}
		sort.Slice(keys, func(i, j int) bool { return ser(keys[i]) < ser(keys[j]) })
	default:
		sort.Slice(keys, func(i, j int) bool { return fmt.Sprintf("%#v", keys[i]) < fmt.Sprintf("%#v", keys[j]) })
	}
	// tape-driven permutation (Fisher-Yates); all-zero choices keep canonical order
	for i := 0; i < len(keys)-1; i++ {
		j := i + s.tape.Choose(len(keys)-i)
		keys[i], keys[j] = keys[j], keys[i]
	}
	return keys
}

// NoteKey gives a pointer-like map key a serial number in insertion order.
//
//go:norace
func NoteKey[K any](k K) {
	s := act
	if s == nil {
		return
	}
	v := reflect.ValueOf(k)
	switch v.Kind() {
	case reflect.Ptr, reflect.Chan, reflect.UnsafePointer:
		p := v.Pointer()
		if !s.serial.Has(uint64(p)) {
			s.nserial++
			s.serial.Set(uint64(p), s.nserial)
			s.keep = Push(s.keep, interface{}(k)) // the address must not be reused during the run
		}
	}
}
