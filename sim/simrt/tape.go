package simrt

// Tape is the single source of every nondeterministic choice of a run.
//
// In generating mode values come from a splitmix64 stream; every value that is
// consumed is recorded (already reduced modulo the bound it was asked for), so
// the recorded tape replays the run exactly.  In replay mode values come from
// the recorded list; past its end every choice is 0, which by convention is
// always the simplest alternative (same task keeps running, no fault, fewest
// operations).  That convention is what makes tape shrinking meaningful.
type Tape struct {
	state  uint64
	replay bool
	in     []uint32
	pos    int
	Out    []uint32
}

// NewTape returns a generating tape.
//
//go:norace
func NewTape(seed uint64) *Tape {
	return &Tape{state: seed*0x9E3779B97F4A7C15 + 0x1234567}
}

// ReplayTape returns a tape that replays vals.
//
//go:norace
func ReplayTape(vals []uint32) *Tape {
	return &Tape{replay: true, in: vals}
}

//go:norace
func (t *Tape) next64() uint64 {
	t.state += 0x9E3779B97F4A7C15
	z := t.state
	z = (z ^ (z >> 30)) * 0xBF58476D1CE4E5B9
	z = (z ^ (z >> 27)) * 0x94D049BB133111EB
	return z ^ (z >> 31)
}

// Choose returns a value in [0,n).
//
//go:norace
func (t *Tape) Choose(n int) int {
	if n <= 1 {
		return 0
	}
	var v uint32
	if t.replay {
		if t.pos < len(t.in) {
			v = t.in[t.pos] % uint32(n)
		}
		t.pos++
	} else {
		v = uint32(t.next64()>>33) % uint32(n)
	}
	t.Out = Push(t.Out, v)
	return int(v)
}

// Pos is the number of choices consumed so far.
//
//go:norace
func (t *Tape) Pos() int { return len(t.Out) }
