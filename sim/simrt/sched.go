// Package simrt is the deterministic cooperative scheduler under which the
// instrumented copy of hugelgupf/p9 and the simulation harness run.
//
// Tasks are real goroutines, but exactly one of them is unparked at any
// instant.  A task runs from one synchronisation operation up to the next; at
// each such operation it announces what it is about to do and control is
// handed to whichever enabled task the tape selects.  simrt keeps a model of
// every synchronisation object so that it knows exactly which announced
// operations can complete without blocking; the real operation is still
// executed (the race detector then sees the program's true happens-before),
// and it never blocks because the model said it would not.
//
// Every function here is a no-op wrapper around the plain operation when no
// simulation is running, so instrumented code still works outside a run.
package simrt

import (
	"fmt"
	"os"
	"runtime"
	"runtime/debug"
	"strings"
	"sync"
	"time"
	"unsafe"
)

// Config controls one run.
type Config struct {
	MaxSteps int  // step budget; 0 = default
	Stick    int  // extra weight for "keep running the current task"
	Trace    bool // record Event lines
	MaxTrace int  // cap on recorded Event lines (0 = default)
	// YieldAtomics makes atomic operations scheduling points.
	YieldAtomics bool
	// PoolMissPct: percentage of Pool.Get calls that are forced to miss
	// although an object is cached (what sync.Pool may do after a GC).
	PoolMissPct int
	// PCT: if >0, use priority scheduling with that many change points
	// instead of uniform choice.
	PCT int
}

// Task is one simulated thread of control.
type Task struct {
	ID     int
	Name   string
	Role   string // free text set by harness: "server", "peer", "ctl"…
	wake   chan struct{}
	ready  func() bool
	quiet  bool // enabled only at quiescence
	desc   string
	parked bool
	done   bool
	prio   int
	// Local is task-local storage for the harness (request attribution etc).
	Local PMap[string, interface{}]
	// Parent is the task that spawned this one.
	Parent *Task
	// result slot for modelled rendezvous
	slot interface{}
}

// PanicInfo describes a panic that reached the top of a task.
type PanicInfo struct {
	Task  string
	Value string
	Stack string
	Step  int
}

// Result is what a run produced.
type Result struct {
	Outcome     string // "ok", "deadlock", "budget"
	Steps       int
	Tasks       int
	Choices     int // scheduling decisions with >=2 enabled tasks
	Fingerprint uint64
	Panics      []PanicInfo
	Blocked     []string // description of unfinished tasks at the end
	Trace       []string
	TraceHash   uint64
	Probes      map[string]int
	Faults      map[string]int
	PairSites   map[uint64]struct{}
}

type sched struct {
	cfg      Config
	tape     *Tape
	tasks    []*Task
	cur      *Task
	steps    int
	choices  int
	fp       uint64
	finished chan struct{}
	aborted  bool
	res      *Result

	mutexes PMap[*sync.Mutex, *Task]
	rws     PMap[*sync.RWMutex, *rwState]
	wgs     PMap[*sync.WaitGroup, *wgState]
	onces   PMap[*sync.Once, *onceState]
	conds   PMap[*sync.Cond, *condState]
	closed  U64Map[bool]
	keep    []interface{}
	fins    []interface{} // objects with a finalizer (recorded, not armed)
	rvs     U64Map[*rendezvous]
	chans   U64Map[drainer]
	pools   PMap[*sync.Pool, *poolState]
	serial  U64Map[uint64]
	probes  PMap[string, int]
	faults  PMap[string, int]
	pairs   U64Map[struct{}]
	nserial uint64
	enabled []*Task // scratch

	pctChange U64Map[bool]
	joinTok   int64
	lastSite  string
}

type drainer interface{ drain() }

// act is the running simulation, nil when none.  Exactly one goroutine runs
// at a time during a simulation, so plain access is safe.
var act *sched

// Active reports whether a simulation is running.
//
//go:norace
func Active() bool { return act != nil }

//go:norace
func fatal(format string, args ...interface{}) {
	fmt.Fprintf(os.Stderr, "SIMRT-INTERNAL: "+format+"\n", args...)
	fmt.Fprintf(os.Stderr, "%s\n", debug.Stack())
	os.Exit(2)
}

// Run executes root as task 0 under a fresh scheduler and returns when every
// task has finished, or the run deadlocked or ran out of steps.
//
//go:norace
func Run(cfg Config, tape *Tape, root func()) *Result {
	if act != nil {
		fatal("nested Run")
	}
	if cfg.MaxSteps == 0 {
		cfg.MaxSteps = 200000
	}
	if cfg.MaxTrace == 0 {
		cfg.MaxTrace = 4000
	}
	s := &sched{
		cfg:      cfg,
		tape:     tape,
		finished: make(chan struct{}),
		res:      &Result{},
		fp:       14695981039346656037,
	}
	s.res.TraceHash = 14695981039346656037
	if cfg.PCT > 0 {
		for i := 0; i < cfg.PCT; i++ {
			s.pctChange.Set(uint64(tape.Choose(2000)), true)
		}
	}
	act = s
	t0 := s.newTask("root", nil)
	s.cur = t0
	// the go statement keeps its happens-before edge (as in the real
	// program); only the hand-offs are hidden from the race detector
	go s.taskMain(t0, root, true)
	raceDisable()
	<-s.finished
	raceEnable()
	act = nil
	// Leave process-global state as a fresh process would have it.
	s.chans.Each(func(_ uint64, d drainer) { d.drain() })
	r := s.res
	r.Probes = s.probes.ToMap()
	r.Faults = s.faults.ToMap()
	r.PairSites = map[uint64]struct{}{}
	s.pairs.Each(func(k uint64, _ struct{}) { r.PairSites[k] = struct{}{} })
	r.Steps = s.steps
	r.Tasks = len(s.tasks)
	r.Choices = s.choices
	r.Fingerprint = s.fp
	if r.Outcome == "" {
		r.Outcome = "ok"
	}
	for _, t := range s.tasks {
		if !t.done {
			r.Blocked = Push(r.Blocked, fmt.Sprintf("%s(t%d): %s", t.Name, t.ID, t.desc))
		}
	}
	return r
}

//go:norace
func (s *sched) newTask(name string, parent *Task) *Task {
	t := &Task{ID: len(s.tasks), Name: name, wake: make(chan struct{}, 1), Parent: parent}
	if parent != nil {
		t.Role = parent.Role
		for i := 0; i < parent.Local.Len(); i++ {
			k, v := parent.Local.At(i)
			if strings.HasPrefix(k, "inherit.") {
				t.Local.Set(k, v)
			}
		}
	}
	if s.cfg.PCT > 0 {
		t.prio = 1000 + s.tape.Choose(1000)
	}
	s.tasks = Push(s.tasks, t)
	return t
}

//go:norace
func (s *sched) taskMain(t *Task, f func(), first bool) {
	if !first {
		raceDisable()
		<-t.wake
		raceEnable()
	}
	defer func() {
		if r := recover(); r != nil {
			s.res.Panics = Push(s.res.Panics, PanicInfo{Task: t.Name, Value: fmt.Sprint(r), Stack: string(debug.Stack()), Step: s.steps})
			if s.cfg.Trace {
				s.event(t, "PANIC at top of task: %v", r)
			}
		}
		t.done = true
		t.parked = false
		t.desc = "done"
		raceRelease(unsafe.Pointer(&s.joinTok)) // see Join
		raceDisable()
		next := s.pickNext(nil)
		if next == nil {
			s.finish()
			return
		}
		s.cur = next
		next.wake <- struct{}{}
	}()
	f()
}

//go:norace
func (s *sched) finish() {
	if s.aborted {
		return
	}
	s.aborted = true
	all := true
	for _, t := range s.tasks {
		if !t.done {
			all = false
		}
	}
	if !all && s.res.Outcome == "" {
		s.res.Outcome = "deadlock"
	}
	close(s.finished)
}

// abort ends the run from inside a task; the calling goroutine never returns.
//
//go:norace
func (s *sched) abort(outcome string) {
	s.res.Outcome = outcome
	s.aborted = true
	raceDisable()
	close(s.finished)
	select {}
}

// yield parks the current task until the scheduler selects it again.
// ready==nil means always enabled.
//
//go:norace
func (s *sched) yield(ready func() bool, quiet bool, desc string) {
	t := s.cur
	t.ready, t.quiet, t.desc = ready, quiet, desc
	t.parked = true
	s.steps++
	if s.steps > s.cfg.MaxSteps {
		s.abort("budget")
	}
	next := s.pickNext(t)
	if next == nil {
		s.res.Outcome = "deadlock"
		s.abort("deadlock")
	}
	if next != t {
		s.cur = next
		raceDisable()
		next.wake <- struct{}{}
		<-t.wake
		raceEnable()
	}
	t.parked = false
	t.ready = nil
}

//go:norace
func (s *sched) pickNext(self *Task) *Task {
	en := s.enabled[:0]
	for _, t := range s.tasks {
		if t.done || !t.parked || t.quiet {
			continue
		}
		if t.ready == nil || t.ready() {
			en = Push(en, t)
		}
	}
	if len(en) == 0 {
		for _, t := range s.tasks {
			if t.done || !t.parked || !t.quiet {
				continue
			}
			if t.ready == nil || t.ready() {
				en = Push(en, t)
			}
		}
	}
	s.enabled = en
	if len(en) == 0 {
		return nil
	}
	if len(en) == 1 {
		return en[0]
	}
	// current task first: choice 0 == "keep going"
	if self != nil {
		for i, t := range en {
			if t == self {
				for j := i; j > 0; j-- {
					en[j] = en[j-1]
				}
				en[0] = self
				break
			}
		}
	}
	var pick *Task
	if s.cfg.PCT > 0 {
		// highest priority runs; at change points the running task drops.
		if s.pctChange.Has(uint64(s.steps)) && self != nil {
			self.prio = s.tape.Choose(1000)
		}
		pick = en[0]
		for _, t := range en[1:] {
			if t.prio > pick.prio {
				pick = t
			}
		}
	} else {
		n := len(en)
		v := s.tape.Choose(n + s.cfg.Stick)
		if v >= n {
			v = 0
		}
		pick = en[v]
	}
	s.choices++
	s.fp = (s.fp ^ uint64(pick.ID+1)) * 1099511628211
	s.fp = (s.fp ^ uint64(len(en))) * 1099511628211
	if self != nil && pick != self {
		h := strhash(self.desc)*31 + strhash(pick.desc)
		if s.pairs.Len() < 100000 {
			s.pairs.Set(h, struct{}{})
		}
	}
	return pick
}

//go:norace
func strhash(s string) uint64 {
	h := uint64(14695981039346656037)
	for i := 0; i < len(s); i++ {
		h = (h ^ uint64(s[i])) * 1099511628211
	}
	return h
}

// ---------------------------------------------------------------- public API

// Go starts f as a new task.
//
//go:norace
func Go(f func()) {
	s := act
	if s == nil {
		go f()
		return
	}
	GoNamed("", f)
}

// GoNamed starts f as a new named task and returns it.
//
//go:norace
func GoNamed(name string, f func()) *Task {
	s := act
	if s == nil {
		fatal("GoNamed outside a run")
	}
	parent := s.cur
	if name == "" {
		name = parent.Name + ">"
	}
	t := s.newTask(name, parent)
	t.parked = true
	t.desc = "start"
	go s.taskMain(t, f, false)
	// Spawning is a scheduling point: the child may run first.
	s.yield(nil, false, "go")
	return t
}

// Yield is a plain scheduling point.
//
//go:norace
func Yield(desc string) {
	if s := act; s != nil {
		s.yield(nil, false, desc)
	}
}

// Sleep stands for time.Sleep in instrumented code: no clock is simulated, so
// inside a run a sleep is just a point where any other task may run.
//
//go:norace
func Sleep(d time.Duration) {
	if s := act; s != nil {
		s.yield(nil, false, "time.Sleep")
		return
	}
	time.Sleep(d)
}

// Gosched stands for runtime.Gosched in instrumented code.
//
//go:norace
func Gosched() {
	if s := act; s != nil {
		s.yield(nil, false, "runtime.Gosched")
		return
	}
	runtime.Gosched()
}

// SetFinalizer stands for runtime.SetFinalizer in instrumented code.  Inside a
// run nothing is armed for real - when the collector would run a finalizer is
// not something a tape can replay - but the run remembers which objects have
// one (fn == nil disarms), so that a harness can reason about what the
// collector would be entitled to do.
//
//go:norace
func SetFinalizer(obj interface{}, fn interface{}) {
	s := act
	if s == nil {
		runtime.SetFinalizer(obj, fn)
		return
	}
	for i, o := range s.fins {
		if o == obj {
			if fn == nil {
				s.fins = RemoveAt(Clone(s.fins), i)
			}
			return
		}
	}
	if fn != nil {
		s.fins = Push(s.fins, obj)
	}
}

// ArmedFinalizers returns the objects that carry a finalizer right now.
//
//go:norace
func ArmedFinalizers() []interface{} {
	if s := act; s != nil {
		return Clone(s.fins)
	}
	return nil
}

// Block parks the current task until pred holds.  pred is evaluated by the
// scheduler and must be free of side effects.
//
//go:norace
func Block(desc string, pred func() bool) {
	s := act
	if s == nil {
		fatal("Block outside a run")
	}
	s.yield(pred, false, desc)
}

// WaitQuiescent parks the current task until no ordinary task is enabled.
//
//go:norace
func WaitQuiescent() {
	s := act
	if s == nil {
		fatal("WaitQuiescent outside a run")
	}
	s.yield(nil, true, "wait-quiescent")
}

// WaitQuiescentOr parks until pred holds or nothing else can run; it reports
// whether pred held.
//
//go:norace
func WaitQuiescentOr(pred func() bool) bool {
	WaitQuiescent()
	return pred()
}

// Current returns the running task (nil outside a run).
//
//go:norace
func Current() *Task {
	if s := act; s != nil {
		return s.cur
	}
	return nil
}

// Tasks returns all tasks of the current run.
//
//go:norace
func Tasks() []*Task {
	if s := act; s != nil {
		return s.tasks
	}
	return nil
}

// Done reports whether the task has finished.
//
//go:norace
func (t *Task) Done() bool { return t.done }

// Desc returns what the task is parked on.
//
//go:norace
func (t *Task) Desc() string { return t.desc }

// Steps returns the scheduler step counter ("simulated time").
//
//go:norace
func Steps() int {
	if s := act; s != nil {
		return s.steps
	}
	return 0
}

// Choose draws from the run's tape (workload / fault decisions made while the
// run proceeds).
//
//go:norace
func Choose(n int) int {
	s := act
	if s == nil {
		fatal("Choose outside a run")
	}
	return s.tape.Choose(n)
}

// Pct draws a boolean that is true with probability p/100; the 0 choice is false.
//
//go:norace
func Pct(p int) bool {
	if p <= 0 {
		return false
	}
	return Choose(100) >= 100-p
}

// Probe counts that a condition of interest was reached.
//
//go:norace
func Probe(name string) {
	if s := act; s != nil {
		s.probes.Set(name, s.probes.Get(name)+1)
	}
}

// Fault counts that a fault of the given kind actually fired.
//
//go:norace
func Fault(kind string) {
	if s := act; s != nil {
		s.faults.Set(kind, s.faults.Get(kind)+1)
	}
}

// Event appends a trace line (only when tracing).  It never draws from the tape.
//
//go:norace
func Event(format string, args ...interface{}) {
	s := act
	if s == nil || !s.cfg.Trace {
		return
	}
	s.event(s.cur, format, args...)
}

// Tracing reports whether Event lines are being recorded.
//
//go:norace
func Tracing() bool {
	s := act
	return s != nil && s.cfg.Trace
}

//go:norace
func (s *sched) event(t *Task, format string, args ...interface{}) {
	line := fmt.Sprintf("%06d t%d[%s] ", s.steps, t.ID, t.Name) + fmt.Sprintf(format, args...)
	s.res.TraceHash = (s.res.TraceHash ^ strhash(line)) * 1099511628211
	if len(s.res.Trace) < s.cfg.MaxTrace {
		s.res.Trace = Push(s.res.Trace, line)
	}
}

// Point is a named scheduling point inserted by the instrumenter before an
// opaque operation.
//
//go:norace
func Point(site string) {
	if s := act; s != nil {
		s.yield(nil, false, site)
	}
}

// Join gives the calling task a happens-before edge from everything the tasks
// that have already finished did — what a program gets from WaitGroup.Wait or
// from receiving on a done channel.  Harness code that waited (with Block) for
// worker tasks to finish and then touches objects they created calls this, so
// that the race detector does not mistake the harness's own hand-over for a
// race in the code under test.
//
//go:norace
func Join() {
	if s := act; s != nil {
		raceAcquire(unsafe.Pointer(&s.joinTok))
	}
}
