//go:build race

package simrt

import (
	"runtime"
	"unsafe"
)

// RaceBuild reports whether the binary was built with -race.
const RaceBuild = true

// Hand-offs between tasks go through channels; wrapping them in
// RaceDisable/RaceEnable keeps the race detector from seeing them as
// synchronisation, so that it judges the instrumented program by its own
// synchronisation only.
//
//go:norace
func raceDisable() { runtime.RaceDisable() }

//go:norace
func raceEnable() { runtime.RaceEnable() }

//go:norace
func raceRelease(p unsafe.Pointer) { runtime.RaceReleaseMerge(p) }

//go:norace
func raceAcquire(p unsafe.Pointer) { runtime.RaceAcquire(p) }
