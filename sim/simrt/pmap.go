package simrt

// Containers for state that is shared between tasks.
//
// In a -race build the harness is compiled without race instrumentation, but
// Go's built-in map operations (and a few slice helpers) report accesses from
// inside the runtime regardless.  Harness bookkeeping is shared between tasks
// on purpose and its hand-offs are hidden from the detector, so every built-in
// map shared between tasks would be reported as racy.  These containers use
// plain slices and loops only, which the detector cannot see.  They also
// iterate in insertion order, which keeps the harness deterministic.

// PMap is a small insertion-ordered map with linear lookup.
type PMap[K comparable, V any] struct {
	ks []K
	vs []V
}

//go:norace
func (m *PMap[K, V]) find(k K) int {
	for i := range m.ks {
		if m.ks[i] == k {
			return i
		}
	}
	return -1
}

//go:norace
func (m *PMap[K, V]) Get(k K) V {
	if i := m.find(k); i >= 0 {
		return m.vs[i]
	}
	var z V
	return z
}

//go:norace
func (m *PMap[K, V]) Get2(k K) (V, bool) {
	if i := m.find(k); i >= 0 {
		return m.vs[i], true
	}
	var z V
	return z, false
}

//go:norace
func (m *PMap[K, V]) Has(k K) bool { return m.find(k) >= 0 }

//go:norace
func (m *PMap[K, V]) Set(k K, v V) {
	if i := m.find(k); i >= 0 {
		m.vs[i] = v
		return
	}
	m.ks = Push(m.ks, k)
	m.vs = Push(m.vs, v)
}

//go:norace
func (m *PMap[K, V]) Del(k K) {
	i := m.find(k)
	if i < 0 {
		return
	}
	m.ks = RemoveAt(m.ks, i)
	m.vs = RemoveAt(m.vs, i)
}

//go:norace
func (m *PMap[K, V]) Len() int { return len(m.ks) }

// Keys returns the keys in insertion order (the backing array; do not modify).
//go:norace
func (m *PMap[K, V]) Keys() []K { return m.ks }

//go:norace
func (m *PMap[K, V]) At(i int) (K, V) { return m.ks[i], m.vs[i] }

// ToMap copies into a built-in map (for reporting, outside a run).
//go:norace
func (m *PMap[K, V]) ToMap() map[K]V {
	out := make(map[K]V, len(m.ks))
	for i := range m.ks {
		out[m.ks[i]] = m.vs[i]
	}
	return out
}

// Push appends without going through runtime.growslice's race hook.
//go:norace
func Push[T any](s []T, v T) []T {
	if len(s) == cap(s) {
		n := 2*cap(s) + 4
		ns := make([]T, len(s), n)
		for i := range s {
			ns[i] = s[i]
		}
		s = ns
	}
	s = s[:len(s)+1]
	s[len(s)-1] = v
	return s
}

// RemoveAt deletes element i, keeping order, with plain stores only.
//go:norace
func RemoveAt[T any](s []T, i int) []T {
	for j := i; j+1 < len(s); j++ {
		s[j] = s[j+1]
	}
	var z T
	s[len(s)-1] = z
	return s[:len(s)-1]
}

// Clone copies a slice with plain loads and stores.
//go:norace
func Clone[T any](s []T) []T {
	if s == nil {
		return nil
	}
	out := make([]T, len(s))
	for i := range s {
		out[i] = s[i]
	}
	return out
}

// U64Map is an open-addressing hash map keyed by uint64 (0 is a valid key).
type U64Map[V any] struct {
	keys []uint64
	vals []V
	used []bool
	n    int
}

//go:norace
func (m *U64Map[V]) slot(k uint64) int {
	if len(m.keys) == 0 {
		return -1
	}
	h := k * 0x9E3779B97F4A7C15
	mask := uint64(len(m.keys) - 1)
	i := (h >> 17) & mask
	for {
		if !m.used[i] || m.keys[i] == k {
			return int(i)
		}
		i = (i + 1) & mask
	}
}

//go:norace
func (m *U64Map[V]) Get(k uint64) (V, bool) {
	i := m.slot(k)
	if i < 0 || !m.used[i] {
		var z V
		return z, false
	}
	return m.vals[i], true
}

//go:norace
func (m *U64Map[V]) Has(k uint64) bool {
	_, ok := m.Get(k)
	return ok
}

//go:norace
func (m *U64Map[V]) Set(k uint64, v V) {
	if m.n*2 >= len(m.keys) {
		m.grow()
	}
	i := m.slot(k)
	if !m.used[i] {
		m.used[i] = true
		m.keys[i] = k
		m.n++
	}
	m.vals[i] = v
}

//go:norace
func (m *U64Map[V]) grow() {
	ok, ov, ou := m.keys, m.vals, m.used
	n := 2 * len(ok)
	if n == 0 {
		n = 64
	}
	m.keys, m.vals, m.used, m.n = make([]uint64, n), make([]V, n), make([]bool, n), 0
	for i := range ok {
		if ou[i] {
			j := m.slot(ok[i])
			m.used[j], m.keys[j], m.vals[j] = true, ok[i], ov[i]
			m.n++
		}
	}
}

//go:norace
func (m *U64Map[V]) Len() int { return m.n }

// Each visits entries in slot order (not for anything order-sensitive).
//go:norace
func (m *U64Map[V]) Each(f func(k uint64, v V)) {
	for i := range m.keys {
		if m.used[i] {
			f(m.keys[i], m.vals[i])
		}
	}
}
