package simrt

// Self-tests of the scheduler: that it serialises, that the enabled-set models
// agree with the real primitives (every real operation is still executed and
// asserted not to block, so a disagreement aborts the test binary), that it
// finds textbook bugs within a few seeds (sensitivity), that a recorded tape
// replays to the identical trace (determinism), and that a tape read past its
// end takes the simplest choice.  Run by `check selftest-instr`.

import (
	"fmt"
	"sync"
	"testing"
)

func runSeed(seed uint64, cfg Config, root func()) (*Result, []uint32) {
	t := NewTape(seed)
	cfg.Trace = true
	if cfg.MaxSteps == 0 {
		cfg.MaxSteps = 100000
	}
	r := Run(cfg, t, root)
	return r, append([]uint32{}, t.Out...)
}

func TestMutexSerialises(t *testing.T) {
	for seed := uint64(1); seed <= 200; seed++ {
		var mu sync.Mutex
		inside, max, total := 0, 0, 0
		r, _ := runSeed(seed, Config{}, func() {
			var wg sync.WaitGroup
			for i := 0; i < 4; i++ {
				WGAdd(&wg, 1)
				Go(func() {
					for k := 0; k < 3; k++ {
						MutexLock(&mu)
						inside++
						if inside > max {
							max = inside
						}
						Yield("in critical section")
						total++
						inside--
						MutexUnlock(&mu)
					}
					WGDone(&wg)
				})
			}
			WGWait(&wg)
		})
		if r.Outcome != "ok" || max != 1 || total != 12 {
			t.Fatalf("seed %d: outcome %s, max inside %d, total %d", seed, r.Outcome, max, total)
		}
	}
}

// A read-modify-write without a lock loses an update under some schedule; the
// scheduler must find one quickly, and the tape must replay it exactly.
func TestFindsLostUpdateAndReplays(t *testing.T) {
	body := func(out *int) func() {
		return func() {
			x := 0
			var wg sync.WaitGroup
			for i := 0; i < 2; i++ {
				WGAdd(&wg, 1)
				Go(func() {
					v := x
					Yield("between read and write")
					x = v + 1
					WGDone(&wg)
				})
			}
			WGWait(&wg)
			*out = x
		}
	}
	found := uint64(0)
	var tape []uint32
	var hash uint64
	for seed := uint64(1); seed <= 50 && found == 0; seed++ {
		var x int
		r, out := runSeed(seed, Config{}, body(&x))
		if r.Outcome != "ok" {
			t.Fatalf("seed %d: %s", seed, r.Outcome)
		}
		if x == 1 {
			found, tape, hash = seed, out, r.TraceHash
		}
	}
	if found == 0 {
		t.Fatal("no schedule in 50 seeds lost the update")
	}
	for i := 0; i < 5; i++ {
		var x int
		r := Run(Config{Trace: true, MaxSteps: 100000}, ReplayTape(tape), body(&x))
		if x != 1 || r.TraceHash != hash {
			t.Fatalf("replay %d of seed %d: x=%d hash %x want %x", i, found, x, r.TraceHash, hash)
		}
	}
}

func TestFindsLockOrderDeadlock(t *testing.T) {
	dead, ok := 0, 0
	var tape []uint32
	body := func() {
		var a, b sync.Mutex
		var wg sync.WaitGroup
		WGAdd(&wg, 2)
		Go(func() { MutexLock(&a); MutexLock(&b); MutexUnlock(&b); MutexUnlock(&a); WGDone(&wg) })
		Go(func() { MutexLock(&b); MutexLock(&a); MutexUnlock(&a); MutexUnlock(&b); WGDone(&wg) })
		WGWait(&wg)
	}
	for seed := uint64(1); seed <= 100; seed++ {
		r, out := runSeed(seed, Config{}, body)
		switch r.Outcome {
		case "deadlock":
			dead++
			tape = out
		case "ok":
			ok++
		default:
			t.Fatalf("seed %d: %s", seed, r.Outcome)
		}
	}
	if dead == 0 || ok == 0 {
		t.Fatalf("AB/BA: %d deadlocks, %d clean runs in 100 seeds; both must occur", dead, ok)
	}
	if r := Run(Config{MaxSteps: 100000}, ReplayTape(tape), body); r.Outcome != "deadlock" {
		t.Fatalf("replay of a deadlocking tape gave %s", r.Outcome)
	}
	// the empty tape is the simplest schedule: every task runs to its end
	if r := Run(Config{MaxSteps: 100000}, ReplayTape(nil), body); r.Outcome != "ok" {
		t.Fatalf("empty tape gave %s", r.Outcome)
	}
}

// Go's RWMutex prefers writers: a reader arriving while a writer waits must
// wait for that writer.  p9's recursive read locking depends on this detail
// (C16), so the model has to have it.
func TestRWMutexWriterPreference(t *testing.T) {
	sawBlocked := false
	for seed := uint64(1); seed <= 100; seed++ {
		var rw sync.RWMutex
		var order []string
		r, _ := runSeed(seed, Config{}, func() {
			var wg sync.WaitGroup
			RWRLock(&rw) // root holds a read lock
			WGAdd(&wg, 2)
			w := GoNamed("writer", func() {
				RWLock(&rw)
				order = append(order, "W")
				RWUnlock(&rw)
				WGDone(&wg)
			})
			WaitQuiescent() // writer is now waiting for the reader
			_ = w
			GoNamed("reader2", func() {
				RWRLock(&rw)
				order = append(order, "R2")
				RWRUnlock(&rw)
				WGDone(&wg)
			})
			WaitQuiescent() // reader2 must be stuck behind the waiting writer
			if len(order) == 0 {
				sawBlocked = true
			}
			RWRUnlock(&rw)
			WGWait(&wg)
		})
		if r.Outcome != "ok" {
			t.Fatalf("seed %d: %s %v", seed, r.Outcome, r.Blocked)
		}
		if len(order) != 2 || order[0] != "W" {
			t.Fatalf("seed %d: order %v, the waiting writer must go first", seed, order)
		}
	}
	if !sawBlocked {
		t.Fatal("second reader was never observed waiting")
	}
}

func TestRecursiveReadLockDeadlocksBehindWriter(t *testing.T) {
	dead := 0
	for seed := uint64(1); seed <= 100; seed++ {
		r, _ := runSeed(seed, Config{}, func() {
			var rw sync.RWMutex
			var wg sync.WaitGroup
			WGAdd(&wg, 2)
			Go(func() {
				RWRLock(&rw)
				Yield("holding")
				RWRLock(&rw) // recursive
				RWRUnlock(&rw)
				RWRUnlock(&rw)
				WGDone(&wg)
			})
			Go(func() { RWLock(&rw); RWUnlock(&rw); WGDone(&wg) })
			WGWait(&wg)
		})
		if r.Outcome == "deadlock" {
			dead++
		}
	}
	if dead == 0 {
		t.Fatal("recursive RLock with a writer in between never deadlocked in 100 seeds")
	}
}

func TestChannels(t *testing.T) {
	for seed := uint64(1); seed <= 100; seed++ {
		var got []int
		r, _ := runSeed(seed, Config{}, func() {
			buf := make(chan int, 2)
			unbuf := make(chan int)
			done := make(chan struct{})
			Go(func() {
				for i := 0; i < 5; i++ {
					ChanSend(buf, i)
				}
				ChanClose(buf)
			})
			Go(func() {
				for {
					v, ok := ChanRecv2(buf)
					if !ok {
						break
					}
					ChanSend(unbuf, v*10)
				}
				ChanClose(done)
			})
			for n := 0; n < 5; n++ {
				got = append(got, ChanRecv(unbuf))
			}
			ChanRecv(done)
		})
		if r.Outcome != "ok" || fmt.Sprint(got) != "[0 10 20 30 40]" {
			t.Fatalf("seed %d: %s %v %v", seed, r.Outcome, got, r.Blocked)
		}
	}
}

func TestSelectPicksAmongReadyCases(t *testing.T) {
	seen := map[int]bool{}
	for seed := uint64(1); seed <= 60; seed++ {
		runSeed(seed, Config{}, func() {
			a := make(chan int, 1)
			b := make(chan int, 1)
			ChanSend(a, 1)
			ChanSend(b, 2)
			switch Select(false, SelRecv(a), SelRecv(b)) {
			case 0:
				<-a
				seen[0] = true
			case 1:
				<-b
				seen[1] = true
			}
		})
	}
	if !seen[0] || !seen[1] {
		t.Fatalf("select with two ready cases only ever took %v", seen)
	}
}

func TestCondAndOnce(t *testing.T) {
	for seed := uint64(1); seed <= 100; seed++ {
		n := 0
		r, _ := runSeed(seed, Config{}, func() {
			var mu sync.Mutex
			c := sync.NewCond(&mu)
			var once sync.Once
			ready := false
			var wg sync.WaitGroup
			for i := 0; i < 3; i++ {
				WGAdd(&wg, 1)
				Go(func() {
					MutexLock(&mu)
					for !ready {
						CondWait(c)
					}
					MutexUnlock(&mu)
					OnceDo(&once, func() { n++ })
					WGDone(&wg)
				})
			}
			MutexLock(&mu)
			ready = true
			CondBroadcast(c)
			MutexUnlock(&mu)
			WGWait(&wg)
		})
		if r.Outcome != "ok" || n != 1 {
			t.Fatalf("seed %d: %s once ran %d times %v", seed, r.Outcome, n, r.Blocked)
		}
	}
}

func TestLostWakeupIsADeadlock(t *testing.T) {
	dead := 0
	for seed := uint64(1); seed <= 100; seed++ {
		r, _ := runSeed(seed, Config{}, func() {
			var mu sync.Mutex
			c := sync.NewCond(&mu)
			ready := false
			done := make(chan struct{})
			Go(func() {
				// buggy waiter: tests the flag outside the lock
				if !ready {
					Yield("window")
					MutexLock(&mu)
					CondWait(c)
					MutexUnlock(&mu)
				}
				ChanClose(done)
			})
			MutexLock(&mu)
			ready = true
			CondSignal(c)
			MutexUnlock(&mu)
			ChanRecv(done)
		})
		if r.Outcome == "deadlock" {
			dead++
		}
	}
	if dead == 0 {
		t.Fatal("lost wake-up never found in 100 seeds")
	}
}

func TestStepBudget(t *testing.T) {
	r, _ := runSeed(1, Config{MaxSteps: 500}, func() {
		for {
			Yield("spin")
		}
	})
	if r.Outcome != "budget" {
		t.Fatalf("spinning task: outcome %s", r.Outcome)
	}
}

func TestTapeReplayPastEndIsZero(t *testing.T) {
	tp := ReplayTape([]uint32{7, 9})
	if a, b, c, d := tp.Choose(5), tp.Choose(4), tp.Choose(10), tp.Choose(3); a != 2 || b != 1 || c != 0 || d != 0 {
		t.Fatalf("got %d %d %d %d", a, b, c, d)
	}
	g1, g2 := NewTape(42), NewTape(42)
	for i := 0; i < 100; i++ {
		if g1.Choose(1000) != g2.Choose(1000) {
			t.Fatal("same seed, different stream")
		}
	}
	rp := ReplayTape(g1.Out)
	for i := 0; i < 100; i++ {
		if uint32(rp.Choose(1000)) != g1.Out[i] {
			t.Fatal("recorded tape does not replay")
		}
	}
}

func TestSameSeedSameTrace(t *testing.T) {
	body := func() {
		var mu sync.Mutex
		var wg sync.WaitGroup
		ch := make(chan int, 1)
		for i := 0; i < 5; i++ {
			i := i
			WGAdd(&wg, 1)
			Go(func() {
				MutexLock(&mu)
				Yield("x")
				MutexUnlock(&mu)
				if i%2 == 0 {
					ChanSend(ch, i)
				} else {
					ChanRecv(ch)
				}
				WGDone(&wg)
			})
		}
		ChanSend(ch, 99)
		WGWait(&wg)
		ChanRecv(ch)
	}
	for seed := uint64(1); seed <= 30; seed++ {
		r1, _ := runSeed(seed, Config{}, body)
		r2, _ := runSeed(seed, Config{}, body)
		if r1.TraceHash != r2.TraceHash || r1.Steps != r2.Steps || r1.Outcome != r2.Outcome {
			t.Fatalf("seed %d: two runs differ (%x/%d/%s vs %x/%d/%s)", seed, r1.TraceHash, r1.Steps, r1.Outcome, r2.TraceHash, r2.Steps, r2.Outcome)
		}
	}
}
