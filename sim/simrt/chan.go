package simrt

import (
	"reflect"
)

// Channel operations.  Buffered channels are modelled from the real
// channel's len/cap plus a closed set maintained here; the real operation is
// executed once the model says it cannot block.  Unbuffered channels are
// supported for close/receive-after-close (what p9 uses for tag completion)
// and for rendezvous between a plain send and a plain receive.

//go:norace
func chanKey(ch interface{}) uintptr {
	return reflect.ValueOf(ch).Pointer()
}

type chanDrainer[T any] struct{ ch chan T }

//go:norace
func (d chanDrainer[T]) drain() {
	for {
		select {
		case _, ok := <-d.ch:
			if !ok {
				return // closed and empty
			}
		default:
			return
		}
	}
}

// note remembers buffered channels so that whatever a run leaves in them
// (p9's process-wide message caches) is removed when the run ends.
//
//go:norace
func note[T any](s *sched, ch chan T, key uintptr) {
	if cap(ch) == 0 {
		return
	}
	if !s.chans.Has(uint64(key)) {
		s.chans.Set(uint64(key), chanDrainer[T]{ch})
	}
}

type rendezvous struct {
	senders   []*rvParty
	receivers []*rvParty
}

type rvParty struct {
	t    *Task
	val  interface{}
	done bool
	ok   bool
}

//go:norace
func (s *sched) rv(key uintptr) *rendezvous {
	r, _ := s.rvs.Get(uint64(key))
	if r == nil {
		r = &rendezvous{}
		s.rvs.Set(uint64(key), r)
	}
	return r
}

//go:norace
func removeParty(l []*rvParty, p *rvParty) []*rvParty {
	for i, x := range l {
		if x == p {
			return RemoveAt(l, i)
		}
	}
	return l
}

//go:norace
func ChanSend[T any](ch chan T, v T) {
	s := act
	if s == nil {
		ch <- v
		return
	}
	if ch == nil {
		s.yield(func() bool { return false }, false, "chan send (nil)")
	}
	key := chanKey(ch)
	if cap(ch) == 0 {
		// rendezvous
		r := s.rv(key)
		me := &rvParty{t: s.cur, val: v}
		r.senders = Push(r.senders, me)
		s.yield(func() bool { return me.done || s.closed.Has(uint64(key)) || len(r.receivers) > 0 }, false, "chan send (unbuffered)")
		r.senders = removeParty(r.senders, me)
		if me.done {
			return
		}
		if s.closed.Has(uint64(key)) {
			panic("send on closed channel")
		}
		p := r.receivers[0]
		r.receivers = r.receivers[1:]
		p.val, p.ok, p.done = v, true, true
		return
	}
	note(s, ch, key)
	s.yield(func() bool { return len(ch) < cap(ch) || s.closed.Has(uint64(key)) }, false, "chan send")
	if s.closed.Has(uint64(key)) {
		ch <- v // panics, as it should
		return
	}
	select {
	case ch <- v:
	default:
		fatal("model says chan send ready, real send would block")
	}
}

//go:norace
func ChanRecv[T any](ch chan T) T {
	v, _ := ChanRecv2(ch)
	return v
}

//go:norace
func ChanRecv2[T any](ch chan T) (T, bool) {
	s := act
	if s == nil {
		v, ok := <-ch
		return v, ok
	}
	var zero T
	if ch == nil {
		s.yield(func() bool { return false }, false, "chan recv (nil)")
	}
	key := chanKey(ch)
	if cap(ch) == 0 {
		r := s.rv(key)
		me := &rvParty{t: s.cur}
		r.receivers = Push(r.receivers, me)
		s.yield(func() bool { return me.done || s.closed.Has(uint64(key)) || len(r.senders) > 0 }, false, "chan recv (unbuffered)")
		r.receivers = removeParty(r.receivers, me)
		if me.done {
			return me.val.(T), me.ok
		}
		if len(r.senders) > 0 {
			p := r.senders[0]
			r.senders = r.senders[1:]
			p.done = true
			return p.val.(T), true
		}
		// closed: do the real receive so the race detector sees the edge
		v, ok := <-ch
		return v, ok
	}
	note(s, ch, key)
	s.yield(func() bool { return len(ch) > 0 || s.closed.Has(uint64(key)) }, false, "chan recv")
	select {
	case v, ok := <-ch:
		return v, ok
	default:
		fatal("model says chan recv ready, real recv would block")
	}
	return zero, false
}

// ChanRecvOnly is ChanRecv for receive-only channel values (e.g. ctx.Done()).
//
//go:norace
func ChanRecvOnly[T any](ch <-chan T) (T, bool) {
	s := act
	if s == nil {
		v, ok := <-ch
		return v, ok
	}
	key := chanKey(ch)
	s.yield(func() bool { return len(ch) > 0 || s.closed.Has(uint64(key)) }, false, "chan recv (recv-only)")
	select {
	case v, ok := <-ch:
		return v, ok
	default:
		fatal("recv-only channel not ready (closed outside the simulation?)")
	}
	var zero T
	return zero, false
}

//go:norace
func ChanClose[T any](ch chan T) {
	s := act
	if s == nil {
		close(ch)
		return
	}
	if ch != nil {
		s.closed.Set(uint64(chanKey(ch)), true)
		// keep the channel reachable for the rest of the run: the closed set
		// is keyed by address, which must not be reused by a new channel
		s.keep = Push(s.keep, interface{}(ch))
	}
	close(ch)
}

// SelCase describes one communication clause of a select.
type SelCase struct {
	ready func(s *sched) bool
}

//go:norace
func SelSend[T any](ch chan T) SelCase {
	if ch == nil {
		return SelCase{ready: func(*sched) bool { return false }}
	}
	key := chanKey(ch)
	return SelCase{ready: func(s *sched) bool {
		if cap(ch) == 0 {
			if s.closed.Has(uint64(key)) {
				return true
			}
			if r, _ := s.rvs.Get(uint64(key)); r != nil && len(r.receivers) > 0 {
				fatal("select send on unbuffered channel with parked receiver is not modelled")
			}
			return false
		}
		note(s, ch, key)
		return len(ch) < cap(ch) || s.closed.Has(uint64(key))
	}}
}

//go:norace
func SelRecv[T any](ch chan T) SelCase {
	if ch == nil {
		return SelCase{ready: func(*sched) bool { return false }}
	}
	key := chanKey(ch)
	return SelCase{ready: func(s *sched) bool {
		if cap(ch) == 0 {
			if s.closed.Has(uint64(key)) {
				return true
			}
			if r, _ := s.rvs.Get(uint64(key)); r != nil && len(r.senders) > 0 {
				fatal("select recv on unbuffered channel with parked sender is not modelled")
			}
			return false
		}
		note(s, ch, key)
		return len(ch) > 0 || s.closed.Has(uint64(key))
	}}
}

//go:norace
func SelRecvOnly[T any](ch <-chan T) SelCase {
	if ch == nil {
		return SelCase{ready: func(*sched) bool { return false }}
	}
	key := chanKey(ch)
	return SelCase{ready: func(s *sched) bool { return len(ch) > 0 || s.closed.Has(uint64(key)) }}
}

// Select decides which clause of a select statement runs: the index of a
// ready case chosen by the tape (Go's runtime would choose at random), or -1
// for the default clause.  The instrumenter then executes exactly that clause.
//
//go:norace
func Select(hasDefault bool, cases ...SelCase) int {
	s := act
	if s == nil {
		fatal("Select outside a run")
	}
	anyReady := func() bool {
		for _, c := range cases {
			if c.ready(s) {
				return true
			}
		}
		return false
	}
	if hasDefault {
		s.yield(nil, false, "select(default)")
	} else {
		s.yield(anyReady, false, "select")
	}
	var idx []int
	for i, c := range cases {
		if c.ready(s) {
			idx = Push(idx, i)
		}
	}
	if len(idx) == 0 {
		if !hasDefault {
			fatal("select resumed with no ready case")
		}
		return -1
	}
	if len(idx) == 1 {
		return idx[0]
	}
	s.probes.Set("select.multiready", s.probes.Get("select.multiready")+1)
	return idx[s.tape.Choose(len(idx))]
}

// SelectMismatch is reached if the clause the model selected was not ready in
// reality.
//
//go:norace
func SelectMismatch() {
	fatal("select: model chose a clause the real channel could not run")
}

// ChanSendOnly is ChanSend for send-only channel values (buffered only).
//
//go:norace
func ChanSendOnly[T any](ch chan<- T, v T) {
	s := act
	if s == nil {
		ch <- v
		return
	}
	key := chanKey(ch)
	if cap(ch) == 0 && !s.closed.Has(uint64(key)) {
		fatal("send on unbuffered send-only channel is not modelled")
	}
	s.yield(func() bool { return len(ch) < cap(ch) || s.closed.Has(uint64(key)) }, false, "chan send (send-only)")
	if s.closed.Has(uint64(key)) {
		ch <- v
		return
	}
	select {
	case ch <- v:
	default:
		fatal("model says chan send ready, real send would block")
	}
}

//go:norace
func ChanCloseOnly[T any](ch chan<- T) {
	s := act
	if s == nil {
		close(ch)
		return
	}
	if ch != nil {
		s.closed.Set(uint64(chanKey(ch)), true)
		// keep the channel reachable for the rest of the run: the closed set
		// is keyed by address, which must not be reused by a new channel
		s.keep = Push(s.keep, interface{}(ch))
	}
	close(ch)
}

//go:norace
func SelSendOnly[T any](ch chan<- T) SelCase {
	if ch == nil {
		return SelCase{ready: func(*sched) bool { return false }}
	}
	key := chanKey(ch)
	return SelCase{ready: func(s *sched) bool { return len(ch) < cap(ch) || s.closed.Has(uint64(key)) }}
}

// ChanSendF is ChanSend where the real send is performed by do (used when the
// value needs an implicit conversion the generic form cannot express).
//
//go:norace
func ChanSendF[T any](ch chan T, do func()) {
	s := act
	if s == nil {
		do()
		return
	}
	if ch == nil {
		s.yield(func() bool { return false }, false, "chan send (nil)")
	}
	key := chanKey(ch)
	if cap(ch) == 0 {
		if !s.closed.Has(uint64(key)) {
			fatal("send with conversion on an unbuffered channel is not modelled")
		}
		do()
		return
	}
	note(s, ch, key)
	s.yield(func() bool { return len(ch) < cap(ch) || s.closed.Has(uint64(key)) }, false, "chan send")
	do()
}

//go:norace
func ChanSendOnlyF[T any](ch chan<- T, do func()) {
	s := act
	if s == nil {
		do()
		return
	}
	key := chanKey(ch)
	if cap(ch) == 0 && !s.closed.Has(uint64(key)) {
		fatal("send on unbuffered send-only channel is not modelled")
	}
	s.yield(func() bool { return len(ch) < cap(ch) || s.closed.Has(uint64(key)) }, false, "chan send (send-only)")
	do()
}

//go:norace
func ChanRecvOnly1[T any](ch <-chan T) T {
	v, _ := ChanRecvOnly(ch)
	return v
}
