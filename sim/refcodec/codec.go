package refcodec

import (
	"encoding/binary"
	"errors"
	"fmt"
	"reflect"
	"strconv"
)

func itoa(i int) string { return strconv.Itoa(i) }

func typeNameOf(m Message) string { return reflect.TypeOf(m).Elem().Name() }

var (
	qidType  = reflect.TypeOf(QID{})
	attrType = reflect.TypeOf(Attr{})
)

// EncodeBody returns the body bytes (everything after the 7-byte header).
func EncodeBody(m Message) []byte {
	var b []byte
	return encVal(b, reflect.ValueOf(m).Elem())
}

// Opaque is a well-delimited frame of an arbitrary type with an arbitrary
// body: what a peer sends when it speaks a message the receiver does not know
// (or gets wrong).  It is never produced by decoding.
type Opaque struct {
	Type uint8
	Body []byte
}

func (o *Opaque) MsgType() uint8 { return o.Type }

// Encode returns the complete frame.
func Encode(tag uint16, m Message) []byte {
	var body []byte
	if o, ok := m.(*Opaque); ok {
		body = o.Body
	} else {
		body = EncodeBody(m)
	}
	f := make([]byte, HeaderLen, HeaderLen+len(body))
	binary.LittleEndian.PutUint32(f[0:4], uint32(HeaderLen+len(body)))
	f[4] = m.MsgType()
	binary.LittleEndian.PutUint16(f[5:7], tag)
	return append(f, body...)
}

func encVal(b []byte, v reflect.Value) []byte {
	switch v.Kind() {
	case reflect.Uint8:
		return append(b, byte(v.Uint()))
	case reflect.Uint16:
		return binary.LittleEndian.AppendUint16(b, uint16(v.Uint()))
	case reflect.Uint32:
		return binary.LittleEndian.AppendUint32(b, uint32(v.Uint()))
	case reflect.Uint64:
		return binary.LittleEndian.AppendUint64(b, v.Uint())
	case reflect.String:
		s := v.String()
		if len(s) > 0xFFFF {
			panic("refcodec: string longer than 65535 bytes")
		}
		b = binary.LittleEndian.AppendUint16(b, uint16(len(s)))
		return append(b, s...)
	case reflect.Slice:
		if v.Type().Elem().Kind() == reflect.Uint8 {
			b = binary.LittleEndian.AppendUint32(b, uint32(v.Len()))
			return append(b, v.Bytes()...)
		}
		if v.Len() > 0xFFFF {
			panic("refcodec: list longer than 65535 elements")
		}
		b = binary.LittleEndian.AppendUint16(b, uint16(v.Len()))
		for i := 0; i < v.Len(); i++ {
			b = encVal(b, v.Index(i))
		}
		return b
	case reflect.Struct:
		for i := 0; i < v.NumField(); i++ {
			b = encVal(b, v.Field(i))
		}
		return b
	}
	panic("refcodec: unsupported kind " + v.Kind().String())
}

// Class is how a frame relates to the layout of its type.
type Class int

const (
	// Exact: the body is exactly one well-formed message.
	Exact Class = iota
	// Trailing: a well-formed message followed by extra bytes (a receiver
	// may accept or reject it).
	Trailing
	// Malformed: body too short for the fixed fields, or a string / list /
	// data count that runs past the end of the body.
	Malformed
	// UnknownType: the type byte is not a 9P2000.L message.
	UnknownType
)

func (c Class) String() string {
	return [...]string{"exact", "trailing", "malformed", "unknown-type"}[c]
}

var errShort = errors.New("short")

type reader struct {
	b   []byte
	off int
}

func (r *reader) take(n int) ([]byte, error) {
	if n < 0 || len(r.b)-r.off < n {
		return nil, errShort
	}
	s := r.b[r.off : r.off+n]
	r.off += n
	return s, nil
}

func decVal(r *reader, v reflect.Value) error {
	switch v.Kind() {
	case reflect.Uint8:
		s, err := r.take(1)
		if err != nil {
			return err
		}
		v.SetUint(uint64(s[0]))
	case reflect.Uint16:
		s, err := r.take(2)
		if err != nil {
			return err
		}
		v.SetUint(uint64(binary.LittleEndian.Uint16(s)))
	case reflect.Uint32:
		s, err := r.take(4)
		if err != nil {
			return err
		}
		v.SetUint(uint64(binary.LittleEndian.Uint32(s)))
	case reflect.Uint64:
		s, err := r.take(8)
		if err != nil {
			return err
		}
		v.SetUint(binary.LittleEndian.Uint64(s))
	case reflect.String:
		s, err := r.take(2)
		if err != nil {
			return err
		}
		d, err := r.take(int(binary.LittleEndian.Uint16(s)))
		if err != nil {
			return err
		}
		v.SetString(string(d))
	case reflect.Slice:
		if v.Type().Elem().Kind() == reflect.Uint8 {
			s, err := r.take(4)
			if err != nil {
				return err
			}
			n := binary.LittleEndian.Uint32(s)
			if uint64(n) > uint64(len(r.b)) {
				return errShort
			}
			d, err := r.take(int(n))
			if err != nil {
				return err
			}
			v.SetBytes(append([]byte{}, d...))
			return nil
		}
		s, err := r.take(2)
		if err != nil {
			return err
		}
		n := int(binary.LittleEndian.Uint16(s))
		sl := reflect.MakeSlice(v.Type(), 0, 0)
		for i := 0; i < n; i++ {
			e := reflect.New(v.Type().Elem()).Elem()
			if err := decVal(r, e); err != nil {
				return err
			}
			sl = reflect.Append(sl, e)
		}
		v.Set(sl)
	case reflect.Struct:
		for i := 0; i < v.NumField(); i++ {
			if err := decVal(r, v.Field(i)); err != nil {
				return err
			}
		}
	default:
		panic("refcodec: unsupported kind " + v.Kind().String())
	}
	return nil
}

// Frame is a delimited frame taken off a byte stream.
type Frame struct {
	Size uint32
	Type uint8
	Tag  uint16
	Body []byte
	Raw  []byte
}

// ParseHeader reads the 7-byte header.
func ParseHeader(h []byte) (size uint32, typ uint8, tag uint16) {
	return binary.LittleEndian.Uint32(h[0:4]), h[4], binary.LittleEndian.Uint16(h[5:7])
}

// DecodeBody decodes a body of the given type and classifies it.
func DecodeBody(typ uint8, body []byte) (Message, Class) {
	m := New(typ)
	if m == nil {
		return nil, UnknownType
	}
	r := &reader{b: body}
	if err := decVal(r, reflect.ValueOf(m).Elem()); err != nil {
		return nil, Malformed
	}
	if r.off != len(body) {
		return m, Trailing
	}
	return m, Exact
}

// Decode decodes one complete frame (len(frame) must equal its size field).
func Decode(frame []byte) (tag uint16, m Message, c Class, err error) {
	if len(frame) < HeaderLen {
		return 0, nil, Malformed, fmt.Errorf("frame of %d bytes", len(frame))
	}
	size, typ, tag := ParseHeader(frame)
	if int(size) != len(frame) {
		return tag, nil, Malformed, fmt.Errorf("size field %d, frame has %d bytes", size, len(frame))
	}
	m, c = DecodeBody(typ, frame[HeaderLen:])
	return tag, m, c, nil
}

// EncodeDirents lays out directory entries as Rreaddir.data.
func EncodeDirents(ds []Dirent) []byte {
	var b []byte
	for i := range ds {
		b = encVal(b, reflect.ValueOf(&ds[i]).Elem())
	}
	return b
}

// DecodeDirents parses Rreaddir.data; ok is false if it is not a sequence of
// whole entries.
func DecodeDirents(data []byte) (ds []Dirent, ok bool) {
	r := &reader{b: data}
	for r.off < len(data) {
		var d Dirent
		if err := decVal(r, reflect.ValueOf(&d).Elem()); err != nil {
			return ds, false
		}
		ds = append(ds, d)
	}
	return ds, true
}

// DirentSize is the number of bytes an entry occupies in Rreaddir.data.
func DirentSize(name string) int { return 13 + 8 + 1 + 2 + len(name) }

// String renders a message for traces.
func String(m Message) string {
	if m == nil {
		return "<nil>"
	}
	if o, ok := m.(*Opaque); ok {
		return fmt.Sprintf("Opaque{Type:%d Body:%d bytes}", o.Type, len(o.Body))
	}
	v := reflect.ValueOf(m).Elem()
	s := typeNameOf(m) + "{"
	s += fieldsString(v)
	return s + "}"
}

func fieldsString(v reflect.Value) string {
	s := ""
	for i := 0; i < v.NumField(); i++ {
		f := v.Field(i)
		if i > 0 {
			s += " "
		}
		name := v.Type().Field(i).Name
		switch {
		case f.Kind() == reflect.Slice && f.Type().Elem().Kind() == reflect.Uint8:
			b := f.Bytes()
			if len(b) > 12 {
				s += fmt.Sprintf("%s:[%d]%x…", name, len(b), b[:12])
			} else {
				s += fmt.Sprintf("%s:[%d]%x", name, len(b), b)
			}
		case f.Kind() == reflect.String:
			str := f.String()
			if len(str) > 24 {
				s += fmt.Sprintf("%s:%q…(%d)", name, str[:24], len(str))
			} else {
				s += fmt.Sprintf("%s:%q", name, str)
			}
		case f.Kind() == reflect.Struct && v.Type().Field(i).Anonymous:
			s += fieldsString(f)
		case f.Type() == attrType:
			a := f.Interface().(Attr)
			s += fmt.Sprintf("%s:{mode:%o size:%d …}", name, a.Mode, a.Size)
		default:
			s += fmt.Sprintf("%s:%v", name, f.Interface())
		}
	}
	return s
}

// Equal compares two messages field by field (nil and empty slices are equal).
func Equal(a, b Message) bool {
	if a == nil || b == nil {
		return a == nil && b == nil
	}
	if a.MsgType() != b.MsgType() {
		return false
	}
	return string(EncodeBody(a)) == string(EncodeBody(b))
}
