// Package refcodec is an independent 9P2000.L (+ .Google.N) wire codec written
// from the protocol description (diod protocol.md, Linux include/net/9p/9p.h
// and the p9pdu format strings, gVisor's extension messages) — not from
// p9/messages.go, with which it shares no code.  It is what the simulated raw
// peer and fake server speak, what the wire monitor parses with, and the
// oracle for C01/C02.
//
// Frame: size[4] type[1] tag[2] body.  Integers little-endian.  s = len[2]
// bytes.  qid = type[1] version[4] path[8].  Field order below IS the wire
// order; the generic walker in codec.go encodes by Go type:
//
//	uint8/16/32/64 -> 1/2/4/8 bytes      string   -> len[2] bytes
//	[]string       -> n[2] n*(s)         []QID    -> n[2] n*(qid)
//	[]byte         -> count[4] bytes     struct   -> its fields in order
package refcodec

const (
	NoTag uint16 = 0xFFFF
	NoFid uint32 = 0xFFFFFFFF
	NoUID uint32 = 0xFFFFFFFF
	NoGID uint32 = 0xFFFFFFFF

	HeaderLen = 7
	MaxMsize  = 4 << 20
)

// message type numbers (9P2000.L; 126-135 are the .Google.N extensions)
const (
	TypeRlerror      = 7
	TypeTstatfs      = 8
	TypeRstatfs      = 9
	TypeTlopen       = 12
	TypeRlopen       = 13
	TypeTlcreate     = 14
	TypeRlcreate     = 15
	TypeTsymlink     = 16
	TypeRsymlink     = 17
	TypeTmknod       = 18
	TypeRmknod       = 19
	TypeTrename      = 20
	TypeRrename      = 21
	TypeTreadlink    = 22
	TypeRreadlink    = 23
	TypeTgetattr     = 24
	TypeRgetattr     = 25
	TypeTsetattr     = 26
	TypeRsetattr     = 27
	TypeTxattrwalk   = 30
	TypeRxattrwalk   = 31
	TypeTxattrcreate = 32
	TypeRxattrcreate = 33
	TypeTreaddir     = 40
	TypeRreaddir     = 41
	TypeTfsync       = 50
	TypeRfsync       = 51
	TypeTlock        = 52
	TypeRlock        = 53
	TypeTlink        = 70
	TypeRlink        = 71
	TypeTmkdir       = 72
	TypeRmkdir       = 73
	TypeTrenameat    = 74
	TypeRrenameat    = 75
	TypeTunlinkat    = 76
	TypeRunlinkat    = 77
	TypeTversion     = 100
	TypeRversion     = 101
	TypeTauth        = 102
	TypeRauth        = 103
	TypeTattach      = 104
	TypeRattach      = 105
	TypeTflush       = 108
	TypeRflush       = 109
	TypeTwalk        = 110
	TypeRwalk        = 111
	TypeTread        = 116
	TypeRread        = 117
	TypeTwrite       = 118
	TypeRwrite       = 119
	TypeTclunk       = 120
	TypeRclunk       = 121
	TypeTremove      = 122
	TypeRremove      = 123
	TypeTwalkgetattr = 126
	TypeRwalkgetattr = 127
	TypeTucreate     = 128
	TypeRucreate     = 129
	TypeTumkdir      = 130
	TypeRumkdir      = 131
	TypeTumknod      = 132
	TypeRumknod      = 133
	TypeTusymlink    = 134
	TypeRusymlink    = 135
)

// getattr request/valid mask bits (P9_GETATTR_*)
const (
	GetattrMode        uint64 = 0x1
	GetattrNlink       uint64 = 0x2
	GetattrUID         uint64 = 0x4
	GetattrGID         uint64 = 0x8
	GetattrRdev        uint64 = 0x10
	GetattrAtime       uint64 = 0x20
	GetattrMtime       uint64 = 0x40
	GetattrCtime       uint64 = 0x80
	GetattrIno         uint64 = 0x100
	GetattrSize        uint64 = 0x200
	GetattrBlocks      uint64 = 0x400
	GetattrBtime       uint64 = 0x800
	GetattrGen         uint64 = 0x1000
	GetattrDataVersion uint64 = 0x2000
	GetattrAll         uint64 = 0x3fff
)

// setattr valid bits (P9_SETATTR_*)
const (
	SetattrMode     uint32 = 0x1
	SetattrUID      uint32 = 0x2
	SetattrGID      uint32 = 0x4
	SetattrSize     uint32 = 0x8
	SetattrAtime    uint32 = 0x10
	SetattrMtime    uint32 = 0x20
	SetattrCtime    uint32 = 0x40
	SetattrAtimeSet uint32 = 0x80
	SetattrMtimeSet uint32 = 0x100
	SetattrAll      uint32 = 0x1ff
)

// QID type bits
const (
	QTDir     uint8 = 0x80
	QTAppend  uint8 = 0x40
	QTExcl    uint8 = 0x20
	QTMount   uint8 = 0x10
	QTAuth    uint8 = 0x08
	QTTmp     uint8 = 0x04
	QTSymlink uint8 = 0x02
	QTLink    uint8 = 0x01
	QTFile    uint8 = 0x00
)

// Linux mode type bits
const (
	SIfmt  uint32 = 0o170000
	SIfdir uint32 = 0o040000
	SIfreg uint32 = 0o100000
	SIflnk uint32 = 0o120000
	SIfifo uint32 = 0o010000
	SIfchr uint32 = 0o020000
	SIfblk uint32 = 0o060000
	SIfsock uint32 = 0o140000
)

type QID struct {
	Type    uint8
	Version uint32
	Path    uint64
}

type Attr struct {
	Mode        uint32
	UID         uint32
	GID         uint32
	NLink       uint64
	RDev        uint64
	Size        uint64
	BlockSize   uint64
	Blocks      uint64
	ATimeSec    uint64
	ATimeNsec   uint64
	MTimeSec    uint64
	MTimeNsec   uint64
	CTimeSec    uint64
	CTimeNsec   uint64
	BTimeSec    uint64
	BTimeNsec   uint64
	Gen         uint64
	DataVersion uint64
}

// Dirent is one entry of Rreaddir.data: qid[13] offset[8] type[1] name[s].
type Dirent struct {
	QID    QID
	Offset uint64
	Type   uint8
	Name   string
}

// Message is any 9P message body.
type Message interface{ MsgType() uint8 }

type Rlerror struct{ Ecode uint32 }
type Tstatfs struct{ Fid uint32 }
type Rstatfs struct {
	Type    uint32
	Bsize   uint32
	Blocks  uint64
	Bfree   uint64
	Bavail  uint64
	Files   uint64
	Ffree   uint64
	Fsid    uint64
	Namelen uint32
}
type Tlopen struct {
	Fid   uint32
	Flags uint32
}
type Rlopen struct {
	QID    QID
	Iounit uint32
}
type Tlcreate struct {
	Fid   uint32
	Name  string
	Flags uint32
	Mode  uint32
	GID   uint32
}
type Rlcreate struct {
	QID    QID
	Iounit uint32
}
type Tsymlink struct {
	Dfid   uint32
	Name   string
	Target string
	GID    uint32
}
type Rsymlink struct{ QID QID }
type Tmknod struct {
	Dfid  uint32
	Name  string
	Mode  uint32
	Major uint32
	Minor uint32
	GID   uint32
}
type Rmknod struct{ QID QID }
type Trename struct {
	Fid  uint32
	Dfid uint32
	Name string
}
type Rrename struct{}
type Treadlink struct{ Fid uint32 }
type Rreadlink struct{ Target string }
type Tgetattr struct {
	Fid  uint32
	Mask uint64
}
type Rgetattr struct {
	Valid uint64
	QID   QID
	Attr  Attr
}
type Tsetattr struct {
	Fid       uint32
	Valid     uint32
	Mode      uint32
	UID       uint32
	GID       uint32
	Size      uint64
	ATimeSec  uint64
	ATimeNsec uint64
	MTimeSec  uint64
	MTimeNsec uint64
}
type Rsetattr struct{}
type Txattrwalk struct {
	Fid    uint32
	NewFid uint32
	Name   string
}
type Rxattrwalk struct{ Size uint64 }
type Txattrcreate struct {
	Fid      uint32
	Name     string
	AttrSize uint64
	Flags    uint32
}
type Rxattrcreate struct{}
type Treaddir struct {
	Fid    uint32
	Offset uint64
	Count  uint32
}
type Rreaddir struct{ Data []byte }
type Tfsync struct{ Fid uint32 }
type Rfsync struct{}
type Tlock struct {
	Fid      uint32
	Type     uint8
	Flags    uint32
	Start    uint64
	Length   uint64
	ProcID   uint32
	ClientID string
}
type Rlock struct{ Status uint8 }
type Tlink struct {
	Dfid uint32
	Fid  uint32
	Name string
}
type Rlink struct{}
type Tmkdir struct {
	Dfid uint32
	Name string
	Mode uint32
	GID  uint32
}
type Rmkdir struct{ QID QID }
type Trenameat struct {
	OldDirFid uint32
	OldName   string
	NewDirFid uint32
	NewName   string
}
type Rrenameat struct{}
type Tunlinkat struct {
	DirFid uint32
	Name   string
	Flags  uint32
}
type Runlinkat struct{}
type Tversion struct {
	Msize   uint32
	Version string
}
type Rversion struct {
	Msize   uint32
	Version string
}
type Tauth struct {
	Afid   uint32
	Uname  string
	Aname  string
	NUname uint32
}
type Rauth struct{ Aqid QID }
type Tattach struct {
	Fid    uint32
	Afid   uint32
	Uname  string
	Aname  string
	NUname uint32
}
type Rattach struct{ QID QID }
type Tflush struct{ OldTag uint16 }
type Rflush struct{}
type Twalk struct {
	Fid    uint32
	NewFid uint32
	Names  []string
}
type Rwalk struct{ QIDs []QID }
type Tread struct {
	Fid    uint32
	Offset uint64
	Count  uint32
}
type Rread struct{ Data []byte }
type Twrite struct {
	Fid    uint32
	Offset uint64
	Data   []byte
}
type Rwrite struct{ Count uint32 }
type Tclunk struct{ Fid uint32 }
type Rclunk struct{}
type Tremove struct{ Fid uint32 }
type Rremove struct{}
type Twalkgetattr struct {
	Fid    uint32
	NewFid uint32
	Names  []string
}
type Rwalkgetattr struct {
	Valid uint64
	Attr  Attr
	QIDs  []QID
}
type Tucreate struct {
	Tlcreate
	UID uint32
}
type Rucreate struct {
	QID    QID
	Iounit uint32
}
type Tumkdir struct {
	Tmkdir
	UID uint32
}
type Rumkdir struct{ QID QID }
type Tumknod struct {
	Tmknod
	UID uint32
}
type Rumknod struct{ QID QID }
type Tusymlink struct {
	Tsymlink
	UID uint32
}
type Rusymlink struct{ QID QID }

func (*Rlerror) MsgType() uint8      { return TypeRlerror }
func (*Tstatfs) MsgType() uint8      { return TypeTstatfs }
func (*Rstatfs) MsgType() uint8      { return TypeRstatfs }
func (*Tlopen) MsgType() uint8       { return TypeTlopen }
func (*Rlopen) MsgType() uint8       { return TypeRlopen }
func (*Tlcreate) MsgType() uint8     { return TypeTlcreate }
func (*Rlcreate) MsgType() uint8     { return TypeRlcreate }
func (*Tsymlink) MsgType() uint8     { return TypeTsymlink }
func (*Rsymlink) MsgType() uint8     { return TypeRsymlink }
func (*Tmknod) MsgType() uint8       { return TypeTmknod }
func (*Rmknod) MsgType() uint8       { return TypeRmknod }
func (*Trename) MsgType() uint8      { return TypeTrename }
func (*Rrename) MsgType() uint8      { return TypeRrename }
func (*Treadlink) MsgType() uint8    { return TypeTreadlink }
func (*Rreadlink) MsgType() uint8    { return TypeRreadlink }
func (*Tgetattr) MsgType() uint8     { return TypeTgetattr }
func (*Rgetattr) MsgType() uint8     { return TypeRgetattr }
func (*Tsetattr) MsgType() uint8     { return TypeTsetattr }
func (*Rsetattr) MsgType() uint8     { return TypeRsetattr }
func (*Txattrwalk) MsgType() uint8   { return TypeTxattrwalk }
func (*Rxattrwalk) MsgType() uint8   { return TypeRxattrwalk }
func (*Txattrcreate) MsgType() uint8 { return TypeTxattrcreate }
func (*Rxattrcreate) MsgType() uint8 { return TypeRxattrcreate }
func (*Treaddir) MsgType() uint8     { return TypeTreaddir }
func (*Rreaddir) MsgType() uint8     { return TypeRreaddir }
func (*Tfsync) MsgType() uint8       { return TypeTfsync }
func (*Rfsync) MsgType() uint8       { return TypeRfsync }
func (*Tlock) MsgType() uint8        { return TypeTlock }
func (*Rlock) MsgType() uint8        { return TypeRlock }
func (*Tlink) MsgType() uint8        { return TypeTlink }
func (*Rlink) MsgType() uint8        { return TypeRlink }
func (*Tmkdir) MsgType() uint8       { return TypeTmkdir }
func (*Rmkdir) MsgType() uint8       { return TypeRmkdir }
func (*Trenameat) MsgType() uint8    { return TypeTrenameat }
func (*Rrenameat) MsgType() uint8    { return TypeRrenameat }
func (*Tunlinkat) MsgType() uint8    { return TypeTunlinkat }
func (*Runlinkat) MsgType() uint8    { return TypeRunlinkat }
func (*Tversion) MsgType() uint8     { return TypeTversion }
func (*Rversion) MsgType() uint8     { return TypeRversion }
func (*Tauth) MsgType() uint8        { return TypeTauth }
func (*Rauth) MsgType() uint8        { return TypeRauth }
func (*Tattach) MsgType() uint8      { return TypeTattach }
func (*Rattach) MsgType() uint8      { return TypeRattach }
func (*Tflush) MsgType() uint8       { return TypeTflush }
func (*Rflush) MsgType() uint8       { return TypeRflush }
func (*Twalk) MsgType() uint8        { return TypeTwalk }
func (*Rwalk) MsgType() uint8        { return TypeRwalk }
func (*Tread) MsgType() uint8        { return TypeTread }
func (*Rread) MsgType() uint8        { return TypeRread }
func (*Twrite) MsgType() uint8       { return TypeTwrite }
func (*Rwrite) MsgType() uint8       { return TypeRwrite }
func (*Tclunk) MsgType() uint8       { return TypeTclunk }
func (*Rclunk) MsgType() uint8       { return TypeRclunk }
func (*Tremove) MsgType() uint8      { return TypeTremove }
func (*Rremove) MsgType() uint8      { return TypeRremove }
func (*Twalkgetattr) MsgType() uint8 { return TypeTwalkgetattr }
func (*Rwalkgetattr) MsgType() uint8 { return TypeRwalkgetattr }
func (*Tucreate) MsgType() uint8     { return TypeTucreate }
func (*Rucreate) MsgType() uint8     { return TypeRucreate }
func (*Tumkdir) MsgType() uint8      { return TypeTumkdir }
func (*Rumkdir) MsgType() uint8      { return TypeRumkdir }
func (*Tumknod) MsgType() uint8      { return TypeTumknod }
func (*Rumknod) MsgType() uint8      { return TypeRumknod }
func (*Tusymlink) MsgType() uint8    { return TypeTusymlink }
func (*Rusymlink) MsgType() uint8    { return TypeRusymlink }

// New returns a zero message of the given type, or nil if the type is not a
// 9P2000.L(.Google.N) message.
func New(t uint8) Message {
	switch t {
	case TypeRlerror:
		return &Rlerror{}
	case TypeTstatfs:
		return &Tstatfs{}
	case TypeRstatfs:
		return &Rstatfs{}
	case TypeTlopen:
		return &Tlopen{}
	case TypeRlopen:
		return &Rlopen{}
	case TypeTlcreate:
		return &Tlcreate{}
	case TypeRlcreate:
		return &Rlcreate{}
	case TypeTsymlink:
		return &Tsymlink{}
	case TypeRsymlink:
		return &Rsymlink{}
	case TypeTmknod:
		return &Tmknod{}
	case TypeRmknod:
		return &Rmknod{}
	case TypeTrename:
		return &Trename{}
	case TypeRrename:
		return &Rrename{}
	case TypeTreadlink:
		return &Treadlink{}
	case TypeRreadlink:
		return &Rreadlink{}
	case TypeTgetattr:
		return &Tgetattr{}
	case TypeRgetattr:
		return &Rgetattr{}
	case TypeTsetattr:
		return &Tsetattr{}
	case TypeRsetattr:
		return &Rsetattr{}
	case TypeTxattrwalk:
		return &Txattrwalk{}
	case TypeRxattrwalk:
		return &Rxattrwalk{}
	case TypeTxattrcreate:
		return &Txattrcreate{}
	case TypeRxattrcreate:
		return &Rxattrcreate{}
	case TypeTreaddir:
		return &Treaddir{}
	case TypeRreaddir:
		return &Rreaddir{}
	case TypeTfsync:
		return &Tfsync{}
	case TypeRfsync:
		return &Rfsync{}
	case TypeTlock:
		return &Tlock{}
	case TypeRlock:
		return &Rlock{}
	case TypeTlink:
		return &Tlink{}
	case TypeRlink:
		return &Rlink{}
	case TypeTmkdir:
		return &Tmkdir{}
	case TypeRmkdir:
		return &Rmkdir{}
	case TypeTrenameat:
		return &Trenameat{}
	case TypeRrenameat:
		return &Rrenameat{}
	case TypeTunlinkat:
		return &Tunlinkat{}
	case TypeRunlinkat:
		return &Runlinkat{}
	case TypeTversion:
		return &Tversion{}
	case TypeRversion:
		return &Rversion{}
	case TypeTauth:
		return &Tauth{}
	case TypeRauth:
		return &Rauth{}
	case TypeTattach:
		return &Tattach{}
	case TypeRattach:
		return &Rattach{}
	case TypeTflush:
		return &Tflush{}
	case TypeRflush:
		return &Rflush{}
	case TypeTwalk:
		return &Twalk{}
	case TypeRwalk:
		return &Rwalk{}
	case TypeTread:
		return &Tread{}
	case TypeRread:
		return &Rread{}
	case TypeTwrite:
		return &Twrite{}
	case TypeRwrite:
		return &Rwrite{}
	case TypeTclunk:
		return &Tclunk{}
	case TypeRclunk:
		return &Rclunk{}
	case TypeTremove:
		return &Tremove{}
	case TypeRremove:
		return &Rremove{}
	case TypeTwalkgetattr:
		return &Twalkgetattr{}
	case TypeRwalkgetattr:
		return &Rwalkgetattr{}
	case TypeTucreate:
		return &Tucreate{}
	case TypeRucreate:
		return &Rucreate{}
	case TypeTumkdir:
		return &Tumkdir{}
	case TypeRumkdir:
		return &Rumkdir{}
	case TypeTumknod:
		return &Tumknod{}
	case TypeRumknod:
		return &Rumknod{}
	case TypeTusymlink:
		return &Tusymlink{}
	case TypeRusymlink:
		return &Rusymlink{}
	}
	return nil
}

// IsT reports whether t is a request type.
func IsT(t uint8) bool { return New(t) != nil && t != TypeRlerror && t%2 == 0 }

// ReplyType is the R-type that answers request type t.
func ReplyType(t uint8) uint8 { return t + 1 }

// TypeName returns e.g. "Twalk".
func TypeName(t uint8) string {
	m := New(t)
	if m == nil {
		return "T?" + itoa(int(t))
	}
	return typeNameOf(m)
}
