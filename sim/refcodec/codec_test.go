package refcodec

import (
	"bytes"
	"testing"
)

// Golden bytes written by hand from the protocol description.
func TestGolden(t *testing.T) {
	got := Encode(0xFFFF, &Tversion{Msize: 8192, Version: "9P2000.L"})
	want := []byte{21, 0, 0, 0, 100, 0xFF, 0xFF, 0x00, 0x20, 0, 0, 8, 0, '9', 'P', '2', '0', '0', '0', '.', 'L'}
	if !bytes.Equal(got, want) {
		t.Fatalf("Tversion: got %v want %v", got, want)
	}
	got = Encode(1, &Twalk{Fid: 1, NewFid: 2, Names: []string{"a", "bc"}})
	want = []byte{24, 0, 0, 0, 110, 1, 0, 1, 0, 0, 0, 2, 0, 0, 0, 2, 0, 1, 0, 'a', 2, 0, 'b', 'c'}
	if !bytes.Equal(got, want) {
		t.Fatalf("Twalk: got %v want %v", got, want)
	}
	got = Encode(2, &Twrite{Fid: 3, Offset: 0x0102030405060708, Data: []byte{9, 9}})
	want = []byte{25, 0, 0, 0, 118, 2, 0, 3, 0, 0, 0, 8, 7, 6, 5, 4, 3, 2, 1, 2, 0, 0, 0, 9, 9}
	if !bytes.Equal(got, want) {
		t.Fatalf("Twrite: got %v want %v", got, want)
	}
	got = Encode(3, &Rlopen{QID: QID{Type: 0x80, Version: 1, Path: 2}, Iounit: 5})
	want = []byte{24, 0, 0, 0, 13, 3, 0, 0x80, 1, 0, 0, 0, 2, 0, 0, 0, 0, 0, 0, 0, 5, 0, 0, 0}
	if !bytes.Equal(got, want) {
		t.Fatalf("Rlopen: got %v want %v", got, want)
	}
	if n := len(EncodeBody(&Rgetattr{})); n != 8+13+3*4+15*8 {
		t.Fatalf("Rgetattr body %d", n)
	}
	if n := len(EncodeBody(&Tsetattr{})); n != 4+4+4+4+4+8+4*8 {
		t.Fatalf("Tsetattr body %d", n)
	}
	if n := len(EncodeBody(&Tlock{})); n != 4+1+4+8+8+4+2 {
		t.Fatalf("Tlock body %d", n)
	}
	if n := len(EncodeBody(&Tucreate{})); n != 4+2+4+4+4+4 {
		t.Fatalf("Tucreate body %d", n)
	}
}

func TestRoundTripAndClasses(t *testing.T) {
	n := 0
	for ty := 0; ty < 256; ty++ {
		m := New(uint8(ty))
		if m == nil {
			continue
		}
		n++
		f := Encode(7, m)
		tag, m2, c, err := Decode(f)
		if err != nil || c != Exact || tag != 7 || !Equal(m, m2) {
			t.Fatalf("type %d: %v %v", ty, c, err)
		}
		f2 := append(append([]byte{}, f...), 0)
		f2[0]++
		if _, _, c, _ := Decode(f2); c != Trailing {
			t.Fatalf("type %d trailing: %v", ty, c)
		}
		if len(f) > HeaderLen {
			f3 := append([]byte{}, f[:len(f)-1]...)
			f3[0]--
			if _, _, c, _ := Decode(f3); c != Malformed {
				t.Fatalf("type %d short: %v", ty, c)
			}
		}
	}
	if n != 65 {
		t.Fatalf("%d types, want 65", n)
	}
}
