// p9sim is the simulation driver binary (see /verif/DESIGN.md).
package main

import "github.com/hugelgupf/p9/zzverif/sim"

func main() { sim.Main() }
