#!/bin/bash
# thorough sweep of all properties at a given seed (run from a /verif snapshot)
export GOFLAGS=-mod=mod GOPROXY=off GOSUMDB=off GOTOOLCHAIN=local
( cd tools/p9instr && go build -o ../../bin/p9instr . ) || exit 2
for p in C01 C02 C03 C04 C05 C06 C07 C08 C09 C10 C11 C12 C13 C14 C15 C16 C17 C18 C19 C20; do
  echo "=== $p seed=$VERIF_SEED"
  VERIF_SECS=${SECS:-600} ./check $p thorough 2>&1 | grep -v "^  index" | tail -6
done
