// p9instr rewrites a scratch copy of hugelgupf/p9 so that every
// synchronisation operation goes through the simulation runtime (simrt).
//
// usage: p9instr [-norace-harness] <dir-of-scratch-copy>
//
// The rewrite is purely mechanical and type-directed (see DESIGN.md §2.1):
// sync.Mutex/RWMutex/WaitGroup/Once/Cond/Pool method calls, sync/atomic calls,
// channel send/receive/close/select/range, go statements and range-over-map
// loops.  Outside a simulation every simrt wrapper falls through to the plain
// operation, so the rewritten tree still passes the repository's own tests.
//
// Anything the tool does not know how to handle makes it exit 2 — never a
// silent skip.
package main

import (
	"bytes"
	"flag"
	"fmt"
	"go/ast"
	"go/format"
	"go/token"
	"go/types"
	"os"
	"os/exec"
	"path/filepath"
	"sort"
	"strings"

	"golang.org/x/tools/go/ast/astutil"
	"golang.org/x/tools/go/packages"
)

var (
	fset    *token.FileSet
	simPath string
	counts  = map[string]int{}
	tmpN    int
	verbose = flag.Bool("v", false, "verbose")
)

func die(format string, args ...interface{}) {
	fmt.Fprintf(os.Stderr, "p9instr: "+format+"\n", args...)
	os.Exit(2)
}

func pos(n ast.Node) string { return fset.Position(n.Pos()).String() }

func main() {
	flag.Parse()
	if flag.NArg() != 1 {
		die("usage: p9instr <dir>")
	}
	dir, _ := filepath.Abs(flag.Arg(0))

	modData, err := os.ReadFile(filepath.Join(dir, "go.mod"))
	if err != nil {
		die("%v", err)
	}
	var modPath string
	for _, l := range strings.Split(string(modData), "\n") {
		if strings.HasPrefix(l, "module ") {
			modPath = strings.TrimSpace(strings.TrimPrefix(l, "module "))
			break
		}
	}
	if modPath == "" {
		die("no module line in go.mod")
	}
	simPath = modPath + "/zzverif/simrt"

	// which packages: everything in the module except commands, VM test
	// drivers and the harness itself.
	cmd := exec.Command("go", "list", "./...")
	cmd.Dir = dir
	cmd.Stderr = os.Stderr
	out, err := cmd.Output()
	if err != nil {
		die("go list: %v", err)
	}
	var pats []string
	for _, p := range strings.Fields(string(out)) {
		rel := strings.TrimPrefix(strings.TrimPrefix(p, modPath), "/")
		if strings.HasPrefix(rel, "cmd") || strings.HasPrefix(rel, "fsimpl/test") || strings.HasPrefix(rel, "zzverif") {
			continue
		}
		pats = append(pats, p)
	}
	sort.Strings(pats)

	fset = token.NewFileSet()
	cfg := &packages.Config{
		Mode: packages.NeedName | packages.NeedFiles | packages.NeedCompiledGoFiles | packages.NeedSyntax |
			packages.NeedTypes | packages.NeedTypesInfo | packages.NeedImports | packages.NeedDeps,
		Dir:        dir,
		Fset:       fset,
		BuildFlags: []string{"-tags=verif"},
	}
	pkgs, err := packages.Load(cfg, pats...)
	if err != nil {
		die("load: %v", err)
	}
	bad := false
	for _, p := range pkgs {
		for _, e := range p.Errors {
			fmt.Fprintf(os.Stderr, "p9instr: %s: %v\n", p.PkgPath, e)
			bad = true
		}
	}
	if bad {
		die("packages have errors")
	}
	for _, p := range pkgs {
		for i, f := range p.Syntax {
			name := p.CompiledGoFiles[i]
			if !strings.HasPrefix(name, dir) {
				continue
			}
			r := &rewriter{info: p.TypesInfo, file: f, skip: map[ast.Node]bool{}, commaOK: map[ast.Node]bool{}}
			if r.run() {
				writeFile(name, f)
			}
		}
	}
	var keys []string
	for k := range counts {
		keys = append(keys, k)
	}
	sort.Strings(keys)
	var sb strings.Builder
	for _, k := range keys {
		fmt.Fprintf(&sb, " %s=%d", k, counts[k])
	}
	fmt.Printf("p9instr: rewrote%s\n", sb.String())
}

func writeFile(name string, f *ast.File) {
	// Drop comments except build constraints and compiler directives: new
	// nodes carry no positions, and a stray line comment landing inside a
	// rewritten expression would silently comment code out.
	var keep []*ast.CommentGroup
	for _, cg := range f.Comments {
		if cg.End() < f.Package {
			keep = append(keep, cg)
			continue
		}
	}
	for _, d := range f.Decls {
		var doc *ast.CommentGroup
		switch d := d.(type) {
		case *ast.FuncDecl:
			doc = d.Doc
		case *ast.GenDecl:
			doc = d.Doc
		}
		if doc == nil {
			continue
		}
		var lines []*ast.Comment
		for _, c := range doc.List {
			if strings.HasPrefix(c.Text, "//go:") {
				lines = append(lines, c)
			}
		}
		if len(lines) > 0 {
			ncg := &ast.CommentGroup{List: lines}
			keep = append(keep, ncg)
			switch d := d.(type) {
			case *ast.FuncDecl:
				d.Doc = ncg
			case *ast.GenDecl:
				d.Doc = ncg
			}
		} else {
			switch d := d.(type) {
			case *ast.FuncDecl:
				d.Doc = nil
			case *ast.GenDecl:
				d.Doc = nil
			}
		}
	}
	sort.Slice(keep, func(i, j int) bool { return keep[i].Pos() < keep[j].Pos() })
	f.Comments = keep

	var buf bytes.Buffer
	if err := format.Node(&buf, fset, f); err != nil {
		die("format %s: %v", name, err)
	}
	if err := os.WriteFile(name, buf.Bytes(), 0o644); err != nil {
		die("%v", err)
	}
}

type rewriter struct {
	info       *types.Info
	file       *ast.File
	changed    bool
	needAtomic bool
	skip       map[ast.Node]bool // nodes inside select comm clauses: left as they are
	commaOK    map[ast.Node]bool // receive expressions in v, ok := <-ch position
}

func simSel(name string) ast.Expr {
	return &ast.SelectorExpr{X: ast.NewIdent("simrt"), Sel: ast.NewIdent(name)}
}

func call(fn string, args ...ast.Expr) *ast.CallExpr {
	return &ast.CallExpr{Fun: simSel(fn), Args: args}
}

func panicStmt(msg string) ast.Stmt {
	return &ast.ExprStmt{X: &ast.CallExpr{Fun: ast.NewIdent("panic"), Args: []ast.Expr{&ast.BasicLit{Kind: token.STRING, Value: fmt.Sprintf("%q", msg)}}}}
}

func tmp(prefix string) *ast.Ident {
	tmpN++
	return ast.NewIdent(fmt.Sprintf("__simrt_%s%d", prefix, tmpN))
}

func (r *rewriter) run() bool {
	astutil.Apply(r.file, r.pre, r.post)
	if r.changed {
		if usesName(r.file, "simrt") {
			astutil.AddNamedImport(fset, r.file, "simrt", simPath)
		}
		if r.needAtomic {
			astutil.AddNamedImport(fset, r.file, "simatomic", strings.TrimSuffix(simPath, "simrt")+"simatomic")
		}
		// imports that lost their last use (sync/atomic, when every use was a call)
		for _, imp := range r.file.Imports {
			p := strings.Trim(imp.Path.Value, `"`)
			if p == "sync/atomic" || p == "sync" || p == "time" || p == "runtime" {
				if !usesImport(r.file, imp, p) {
					name := ""
					if imp.Name != nil {
						name = imp.Name.Name
					}
					astutil.DeleteNamedImport(fset, r.file, name, p)
				}
			}
		}
	}
	return r.changed
}

func usesName(f *ast.File, name string) bool {
	used := false
	ast.Inspect(f, func(n ast.Node) bool {
		if sel, ok := n.(*ast.SelectorExpr); ok {
			if id, ok := sel.X.(*ast.Ident); ok && id.Name == name && id.Obj == nil {
				used = true
			}
		}
		return !used
	})
	return used
}

func usesImport(f *ast.File, imp *ast.ImportSpec, path string) bool {
	name := path[strings.LastIndex(path, "/")+1:]
	if imp.Name != nil {
		name = imp.Name.Name
	}
	if name == "_" || name == "." {
		return true
	}
	used := false
	ast.Inspect(f, func(n ast.Node) bool {
		if sel, ok := n.(*ast.SelectorExpr); ok {
			if id, ok := sel.X.(*ast.Ident); ok && id.Name == name && id.Obj == nil {
				used = true
			}
		}
		return !used
	})
	return used
}

// pre records context that needs the original (typed) tree.
func (r *rewriter) pre(c *astutil.Cursor) bool {
	switch n := c.Node().(type) {
	case *ast.SelectStmt:
		for _, cl := range n.Body.List {
			cc := cl.(*ast.CommClause)
			if cc.Comm == nil {
				continue
			}
			r.skip[cc.Comm] = true
			switch s := cc.Comm.(type) {
			case *ast.ExprStmt:
				r.skip[unparen(s.X)] = true
			case *ast.AssignStmt:
				r.skip[unparen(s.Rhs[0])] = true
			}
		}
	case *ast.AssignStmt:
		if len(n.Lhs) == 2 && len(n.Rhs) == 1 {
			if u, ok := unparen(n.Rhs[0]).(*ast.UnaryExpr); ok && u.Op == token.ARROW {
				r.commaOK[u] = true
			}
		}
	case *ast.ValueSpec:
		if len(n.Names) == 2 && len(n.Values) == 1 {
			if u, ok := unparen(n.Values[0]).(*ast.UnaryExpr); ok && u.Op == token.ARROW {
				r.commaOK[u] = true
			}
		}
	}
	return true
}

func unparen(e ast.Expr) ast.Expr {
	for {
		p, ok := e.(*ast.ParenExpr)
		if !ok {
			return e
		}
		e = p.X
	}
}

func (r *rewriter) chanDir(e ast.Expr) (types.ChanDir, bool) {
	t := r.info.TypeOf(e)
	if t == nil {
		return 0, false
	}
	ch, ok := t.Underlying().(*types.Chan)
	if !ok {
		// type parameter with channel core type etc.
		return 0, false
	}
	return ch.Dir(), true
}

func (r *rewriter) post(c *astutil.Cursor) bool {
	switch n := c.Node().(type) {
	case *ast.CallExpr:
		if nn := r.rewriteCall(n); nn != nil {
			c.Replace(nn)
			r.changed = true
		}
	case *ast.SelectorExpr:
		// method value of a synchronisation type (e.g. `return mu.RUnlock`)
		if pc, ok := c.Parent().(*ast.CallExpr); ok && pc.Fun == n {
			return true
		}
		sel := r.info.Selections[n]
		if sel == nil || sel.Kind() != types.MethodVal {
			return true
		}
		fn, ok := sel.Obj().(*types.Func)
		if !ok || fn.Pkg() == nil || (fn.Pkg().Path() != "sync" && fn.Pkg().Path() != "sync/atomic") {
			return true
		}
		sig := fn.Type().(*types.Signature)
		rt := sig.Recv().Type()
		if p, ok := rt.(*types.Pointer); ok {
			rt = p.Elem()
		}
		named, ok := rt.(*types.Named)
		if !ok {
			return true
		}
		to, ok := syncMethods[named.Obj().Name()][n.Sel.Name]
		if fn.Pkg().Path() != "sync" || !ok || sig.Params().Len() != 0 || sig.Results().Len() != 0 {
			die("%s: method value %s.%s of a synchronisation type is not supported", pos(n), named.Obj().Name(), n.Sel.Name)
		}
		counts["methodvalue"]++
		c.Replace(call("Bind0", simSel(to), r.recvPtr(n, sel)))
		r.changed = true
	case *ast.SendStmt:
		if r.skip[n] {
			return true
		}
		dir, ok := r.chanDir(n.Chan)
		if !ok {
			die("%s: send on a non-channel-typed expression", pos(n))
		}
		fn := "ChanSend"
		if dir == types.SendOnly {
			fn = "ChanSendOnly"
		}
		counts["send"]++
		c.Replace(r.sendStmt(fn, n))
		r.changed = true
	case *ast.UnaryExpr:
		if n.Op != token.ARROW || r.skip[n] {
			return true
		}
		dir, ok := r.chanDir(n.X)
		if !ok {
			die("%s: receive from a non-channel-typed expression", pos(n))
		}
		counts["recv"]++
		r.changed = true
		if dir == types.RecvOnly {
			if r.commaOK[n] {
				c.Replace(call("ChanRecvOnly", n.X))
			} else {
				c.Replace(call("ChanRecvOnly1", n.X))
			}
			return true
		}
		if r.commaOK[n] {
			c.Replace(call("ChanRecv2", n.X))
		} else {
			c.Replace(call("ChanRecv", n.X))
		}
	case *ast.SelectStmt:
		if _, labeled := c.Parent().(*ast.LabeledStmt); labeled {
			die("%s: labeled select is not supported", pos(n))
		}
		c.Replace(r.rewriteSelect(n))
		counts["select"]++
		r.changed = true
	case *ast.GoStmt:
		c.Replace(r.rewriteGo(n))
		counts["go"]++
		r.changed = true
	case *ast.RangeStmt:
		t := r.info.TypeOf(n.X)
		if t == nil {
			return true
		}
		switch t.Underlying().(type) {
		case *types.Map:
			if n.Key == nil && n.Value == nil {
				return true
			}
			if _, labeled := c.Parent().(*ast.LabeledStmt); labeled {
				die("%s: labeled range over a map is not supported", pos(n))
			}
			c.Replace(r.rewriteMapRange(n))
			counts["maprange"]++
			r.changed = true
		case *types.Chan:
			if _, labeled := c.Parent().(*ast.LabeledStmt); labeled {
				die("%s: labeled range over a channel is not supported", pos(n))
			}
			c.Replace(r.rewriteChanRange(n))
			counts["chanrange"]++
			r.changed = true
		}
	case *ast.AssignStmt:
		// m[k] = v with pointer-like key: give the key a serial for MapKeys
		if c.Index() < 0 {
			return true
		}
		for _, l := range n.Lhs {
			ix, ok := l.(*ast.IndexExpr)
			if !ok {
				continue
			}
			t := r.info.TypeOf(ix.X)
			if t == nil {
				continue
			}
			m, ok := t.Underlying().(*types.Map)
			if !ok {
				continue
			}
			switch m.Key().Underlying().(type) {
			case *types.Pointer, *types.Chan:
				c.InsertBefore(&ast.ExprStmt{X: call("NoteKey", ix.Index)})
				counts["notekey"]++
				r.changed = true
			}
		}
	}
	return true
}

// sendStmt builds the replacement for `ch <- v`.
//
// The value is evaluated before the scheduling point, as Go does; constants
// and nil are used in place (they cannot be bound to a temporary without
// changing their type).
func (r *rewriter) sendStmt(fn string, n *ast.SendStmt) ast.Stmt {
	tv, known := r.info.Types[n.Value]
	isConst := known && (tv.Value != nil || tv.IsNil())
	chT, _ := r.info.TypeOf(n.Chan).Underlying().(*types.Chan)
	sameType := known && chT != nil && tv.Type != nil && types.Identical(chT.Elem(), tv.Type)
	if sameType && !isConst {
		return &ast.ExprStmt{X: call(fn, n.Chan, n.Value)}
	}
	cv := tmp("c")
	send := &ast.FuncLit{
		Type: &ast.FuncType{Params: &ast.FieldList{}},
		Body: &ast.BlockStmt{List: []ast.Stmt{&ast.SendStmt{Chan: cv, Value: n.Value}}},
	}
	var do ast.Expr = send
	if !isConst {
		// evaluate the value now, send it later: func() func() { v := value; return func() { c <- v } }()
		vv := tmp("v")
		send.Body.List[0].(*ast.SendStmt).Value = vv
		do = &ast.CallExpr{Fun: &ast.FuncLit{
			Type: &ast.FuncType{Params: &ast.FieldList{}, Results: &ast.FieldList{List: []*ast.Field{{Type: &ast.FuncType{Params: &ast.FieldList{}}}}}},
			Body: &ast.BlockStmt{List: []ast.Stmt{
				&ast.AssignStmt{Lhs: []ast.Expr{vv}, Tok: token.DEFINE, Rhs: []ast.Expr{n.Value}},
				&ast.ReturnStmt{Results: []ast.Expr{send}},
			}},
		}}
	}
	return &ast.BlockStmt{List: []ast.Stmt{
		&ast.AssignStmt{Lhs: []ast.Expr{cv}, Tok: token.DEFINE, Rhs: []ast.Expr{n.Chan}},
		&ast.ExprStmt{X: call(fn+"F", cv, do)},
	}}
}

var syncMethods = map[string]map[string]string{
	"Mutex":     {"Lock": "MutexLock", "Unlock": "MutexUnlock", "TryLock": "MutexTryLock"},
	"RWMutex":   {"Lock": "RWLock", "Unlock": "RWUnlock", "RLock": "RWRLock", "RUnlock": "RWRUnlock", "TryLock": "RWTryLock", "TryRLock": "RWTryRLock"},
	"WaitGroup": {"Add": "WGAdd", "Done": "WGDone", "Wait": "WGWait"},
	"Once":      {"Do": "OnceDo"},
	"Cond":      {"Wait": "CondWait", "Signal": "CondSignal", "Broadcast": "CondBroadcast"},
	"Pool":      {"Get": "PoolGet", "Put": "PoolPut"},
}

func (r *rewriter) rewriteCall(n *ast.CallExpr) ast.Expr {
	switch fun := n.Fun.(type) {
	case *ast.Ident:
		if b, ok := r.info.Uses[fun].(*types.Builtin); ok && b.Name() == "close" && len(n.Args) == 1 {
			dir, ok := r.chanDir(n.Args[0])
			if !ok {
				die("%s: close of a non-channel-typed expression", pos(n))
			}
			counts["close"]++
			if dir == types.SendOnly {
				return call("ChanCloseOnly", n.Args[0])
			}
			return call("ChanClose", n.Args[0])
		}
	case *ast.SelectorExpr:
		// package-level sync/atomic functions
		if id, ok := fun.X.(*ast.Ident); ok {
			if pn, ok := r.info.Uses[id].(*types.PkgName); ok {
				switch pn.Imported().Path() + "." + fun.Sel.Name {
				case "time.Sleep":
					// no clock is simulated: a sleep is a scheduling point
					counts["sleep"]++
					return call("Sleep", n.Args...)
				case "runtime.Gosched":
					counts["gosched"]++
					return call("Gosched")
				case "runtime.SetFinalizer":
					// the collector is a source of nondeterminism: inside a
					// run finalizers are recorded, never armed for real
					counts["finalizer"]++
					return call("SetFinalizer", n.Args...)
				case "time.After", "time.AfterFunc", "time.NewTimer", "time.NewTicker", "time.Tick",
					"context.WithTimeout", "context.WithDeadline":
					// a timer firing on the real clock would make runs
					// unrepeatable and could be mistaken for a deadlock
					die("%s: %s.%s: timers are not modelled by this simulator", pos(n), pn.Imported().Path(), fun.Sel.Name)
				}
				if pn.Imported().Path() == "sync/atomic" {
					if _, isFunc := r.info.Uses[fun.Sel].(*types.Func); isFunc {
						counts["atomic"]++
						r.needAtomic = true
						return &ast.CallExpr{Fun: &ast.SelectorExpr{X: ast.NewIdent("simatomic"), Sel: ast.NewIdent(fun.Sel.Name)}, Args: n.Args, Ellipsis: n.Ellipsis}
					}
				}
				return nil
			}
		}
		sel := r.info.Selections[fun]
		if sel == nil || sel.Kind() != types.MethodVal {
			return nil
		}
		fn, ok := sel.Obj().(*types.Func)
		if !ok || fn.Pkg() == nil {
			return nil
		}
		pkg := fn.Pkg().Path()
		if pkg != "sync" && pkg != "sync/atomic" {
			return nil
		}
		recv := fn.Type().(*types.Signature).Recv()
		if recv == nil {
			return nil
		}
		rt := recv.Type()
		if p, ok := rt.(*types.Pointer); ok {
			rt = p.Elem()
		}
		named, ok := rt.(*types.Named)
		if !ok {
			return nil
		}
		tname := named.Obj().Name()
		ptr := r.recvPtr(fun, sel)
		if pkg == "sync" {
			if m, ok := syncMethods[tname]; ok {
				to, ok := m[fun.Sel.Name]
				if !ok {
					die("%s: sync.%s.%s is not modelled", pos(n), tname, fun.Sel.Name)
				}
				counts[tname]++
				return &ast.CallExpr{Fun: simSel(to), Args: append([]ast.Expr{ptr}, n.Args...)}
			}
			if tname == "Map" {
				counts["sync.Map"]++
				return &ast.CallExpr{Fun: &ast.SelectorExpr{X: call("PreV", ptr), Sel: fun.Sel}, Args: n.Args, Ellipsis: n.Ellipsis}
			}
			die("%s: sync.%s is not modelled", pos(n), tname)
		}
		// sync/atomic typed values
		counts["atomic"]++
		return &ast.CallExpr{Fun: &ast.SelectorExpr{X: call("PreV", ptr), Sel: fun.Sel}, Args: n.Args, Ellipsis: n.Ellipsis}
	}
	return nil
}

// recvPtr builds an expression for the address of the receiver of a method
// call x.M() including any embedded fields the selection goes through.
func (r *rewriter) recvPtr(fun *ast.SelectorExpr, sel *types.Selection) ast.Expr {
	e := fun.X
	t := r.info.TypeOf(fun.X)
	if t == nil {
		die("%s: receiver expression has no type (nested rewrite?)", pos(fun))
	}
	idx := sel.Index()
	for _, i := range idx[:len(idx)-1] {
		if p, ok := t.Underlying().(*types.Pointer); ok {
			t = p.Elem()
		}
		st, ok := t.Underlying().(*types.Struct)
		if !ok {
			die("%s: cannot follow embedded field path", pos(fun))
		}
		f := st.Field(i)
		e = &ast.SelectorExpr{X: e, Sel: ast.NewIdent(f.Name())}
		t = f.Type()
	}
	if _, ok := t.Underlying().(*types.Pointer); ok {
		return e
	}
	if _, isIface := t.Underlying().(*types.Interface); isIface {
		die("%s: sync method called through an interface is not modelled", pos(fun))
	}
	return &ast.UnaryExpr{Op: token.AND, X: e}
}

func (r *rewriter) rewriteGo(n *ast.GoStmt) ast.Stmt {
	c := n.Call
	// go func(){...}()  -> simrt.Go(func(){...})
	if fl, ok := c.Fun.(*ast.FuncLit); ok && len(c.Args) == 0 && fl.Type.Results == nil {
		return &ast.ExprStmt{X: call("Go", fl)}
	}
	var stmts []ast.Stmt
	fv := tmp("f")
	stmts = append(stmts, &ast.AssignStmt{Lhs: []ast.Expr{fv}, Tok: token.DEFINE, Rhs: []ast.Expr{c.Fun}})
	var args []ast.Expr
	for _, a := range c.Args {
		tv, known := r.info.Types[a]
		if known && (tv.Value != nil || tv.IsNil()) {
			args = append(args, a)
			continue
		}
		if known {
			if _, isTuple := tv.Type.(*types.Tuple); isTuple {
				die("%s: go statement with multi-value argument is not supported", pos(n))
			}
		}
		av := tmp("a")
		stmts = append(stmts, &ast.AssignStmt{Lhs: []ast.Expr{av}, Tok: token.DEFINE, Rhs: []ast.Expr{a}})
		args = append(args, av)
	}
	body := &ast.BlockStmt{List: []ast.Stmt{&ast.ExprStmt{X: &ast.CallExpr{Fun: fv, Args: args, Ellipsis: c.Ellipsis}}}}
	stmts = append(stmts, &ast.ExprStmt{X: call("Go", &ast.FuncLit{Type: &ast.FuncType{Params: &ast.FieldList{}}, Body: body})})
	return &ast.BlockStmt{List: stmts}
}

func (r *rewriter) rewriteMapRange(n *ast.RangeStmt) ast.Stmt {
	mv := tmp("m")
	okv := tmp("ok")
	var pre []ast.Stmt
	pre = append(pre, &ast.AssignStmt{Lhs: []ast.Expr{mv}, Tok: token.DEFINE, Rhs: []ast.Expr{n.X}})

	isBlank := func(e ast.Expr) bool {
		if e == nil {
			return true
		}
		id, ok := e.(*ast.Ident)
		return ok && id.Name == "_"
	}
	var keyVar ast.Expr
	var head []ast.Stmt
	if n.Tok == token.DEFINE && !isBlank(n.Key) {
		keyVar = n.Key
	} else {
		keyVar = tmp("k")
		if !isBlank(n.Key) { // assignment form
			head = append(head, &ast.AssignStmt{Lhs: []ast.Expr{n.Key}, Tok: token.ASSIGN, Rhs: []ast.Expr{keyVar}})
		}
	}
	index := &ast.IndexExpr{X: mv, Index: keyVar}
	skip := &ast.IfStmt{Cond: &ast.UnaryExpr{Op: token.NOT, X: okv}, Body: &ast.BlockStmt{List: []ast.Stmt{&ast.BranchStmt{Tok: token.CONTINUE}}}}
	if isBlank(n.Value) {
		head = append(head, &ast.AssignStmt{Lhs: []ast.Expr{ast.NewIdent("_"), okv}, Tok: token.DEFINE, Rhs: []ast.Expr{index}}, skip)
	} else if n.Tok == token.DEFINE {
		head = append(head, &ast.AssignStmt{Lhs: []ast.Expr{n.Value, okv}, Tok: token.DEFINE, Rhs: []ast.Expr{index}}, skip)
	} else {
		tv := tmp("v")
		head = append(head,
			&ast.AssignStmt{Lhs: []ast.Expr{tv, okv}, Tok: token.DEFINE, Rhs: []ast.Expr{index}}, skip,
			&ast.AssignStmt{Lhs: []ast.Expr{n.Value}, Tok: token.ASSIGN, Rhs: []ast.Expr{tv}})
	}
	// silence "declared and not used" for a key that the body ignores
	body := &ast.BlockStmt{List: append(head, n.Body.List...)}
	loop := &ast.RangeStmt{Key: ast.NewIdent("_"), Value: keyVar, Tok: token.DEFINE, X: call("MapKeys", mv), Body: body}
	if id, ok := keyVar.(*ast.Ident); ok && n.Tok != token.DEFINE {
		_ = id
	}
	return &ast.BlockStmt{List: append(pre, loop)}
}

func (r *rewriter) rewriteChanRange(n *ast.RangeStmt) ast.Stmt {
	cv := tmp("c")
	okv := tmp("ok")
	dir, _ := r.chanDir(n.X)
	fn := "ChanRecv2"
	if dir == types.RecvOnly {
		fn = "ChanRecvOnly"
	}
	var head []ast.Stmt
	brk := &ast.IfStmt{Cond: &ast.UnaryExpr{Op: token.NOT, X: okv}, Body: &ast.BlockStmt{List: []ast.Stmt{&ast.BranchStmt{Tok: token.BREAK}}}}
	if n.Key == nil {
		head = append(head, &ast.AssignStmt{Lhs: []ast.Expr{ast.NewIdent("_"), okv}, Tok: token.DEFINE, Rhs: []ast.Expr{call(fn, cv)}}, brk)
	} else if n.Tok == token.DEFINE {
		head = append(head, &ast.AssignStmt{Lhs: []ast.Expr{n.Key, okv}, Tok: token.DEFINE, Rhs: []ast.Expr{call(fn, cv)}}, brk)
	} else {
		tv := tmp("v")
		head = append(head, &ast.AssignStmt{Lhs: []ast.Expr{tv, okv}, Tok: token.DEFINE, Rhs: []ast.Expr{call(fn, cv)}}, brk,
			&ast.AssignStmt{Lhs: []ast.Expr{n.Key}, Tok: token.ASSIGN, Rhs: []ast.Expr{tv}})
	}
	return &ast.BlockStmt{List: []ast.Stmt{
		&ast.AssignStmt{Lhs: []ast.Expr{cv}, Tok: token.DEFINE, Rhs: []ast.Expr{n.X}},
		&ast.ForStmt{Body: &ast.BlockStmt{List: append(head, n.Body.List...)}},
	}}
}

// rewriteSelect: under simulation the tape picks among the ready clauses and
// exactly that clause is executed; outside a simulation the original select
// runs unchanged.
func (r *rewriter) rewriteSelect(n *ast.SelectStmt) ast.Stmt {
	hasDefault := false
	var selArgs []ast.Expr
	var cases []ast.Stmt
	idx := 0
	for _, cl := range n.Body.List {
		cc := cl.(*ast.CommClause)
		if cc.Comm == nil {
			hasDefault = true
			cases = append(cases, &ast.CaseClause{List: nil, Body: cc.Body})
			continue
		}
		var chExpr ast.Expr
		send := false
		switch s := cc.Comm.(type) {
		case *ast.SendStmt:
			chExpr, send = s.Chan, true
		case *ast.ExprStmt:
			chExpr = unparen(s.X).(*ast.UnaryExpr).X
		case *ast.AssignStmt:
			chExpr = unparen(s.Rhs[0]).(*ast.UnaryExpr).X
		default:
			die("%s: unexpected select clause", pos(cc))
		}
		dir, ok := r.chanDir(chExpr)
		if !ok {
			die("%s: select on a non-channel-typed expression", pos(cc))
		}
		fn := "SelRecv"
		if send {
			fn = "SelSend"
		}
		switch dir {
		case types.SendOnly:
			fn = "SelSendOnly"
		case types.RecvOnly:
			fn = "SelRecvOnly"
		}
		selArgs = append(selArgs, call(fn, chExpr))
		inner := &ast.SelectStmt{Body: &ast.BlockStmt{List: []ast.Stmt{
			&ast.CommClause{Comm: cc.Comm, Body: cc.Body},
			&ast.CommClause{Comm: nil, Body: []ast.Stmt{&ast.ExprStmt{X: call("SelectMismatch")}, panicStmt("unreachable")}},
		}}}
		cases = append(cases, &ast.CaseClause{
			List: []ast.Expr{&ast.BasicLit{Kind: token.INT, Value: fmt.Sprint(idx)}},
			Body: []ast.Stmt{inner},
		})
		idx++
	}
	hd := "false"
	if hasDefault {
		hd = "true"
	} else {
		cases = append(cases, &ast.CaseClause{List: nil, Body: []ast.Stmt{&ast.ExprStmt{X: call("SelectMismatch")}, panicStmt("unreachable")}})
	}
	sw := &ast.SwitchStmt{
		Tag:  call("Select", append([]ast.Expr{ast.NewIdent(hd)}, selArgs...)...),
		Body: &ast.BlockStmt{List: cases},
	}
	orig := &ast.SelectStmt{Body: n.Body}
	return &ast.IfStmt{
		Cond: call("Active"),
		Body: &ast.BlockStmt{List: []ast.Stmt{sw}},
		Else: &ast.BlockStmt{List: []ast.Stmt{orig}},
	}
}
