#!/usr/bin/env python3
# prints a markdown table of what the last run of every check covered (from evidence/*.json)
import json, glob, sys
rows = []
for f in sorted(glob.glob('/verif/evidence/C[0-9][0-9].json')):
    e = json.load(open(f)); c = e['coverage']
    faults = ', '.join(f"{k} {v}" for k, v in sorted(c.get('faults_fired', {}).items())) or '—'
    race = c.get('race_detector_batch') or {}
    rr = ''
    if isinstance(race, dict) and race.get('runs'):
        rr = f" + {race['runs']} under -race"
    rows.append(f"| {e['property_id']} | {e['tier']} / {e['seed']} | {c['runs']}{rr} | {c.get('directed_scenarios', 0)} | {c.get('distinct_schedule_fingerprints', 0)} | {c.get('simulated_time_steps', 0):,} | {c.get('runs_per_hour', 0):,} | {faults} | {e.get('violations', 0)} |")
print('| property | tier / seed | runs | directed scenarios | distinct schedules | scheduler steps | runs per hour | faults fired (kind count) | violations |')
print('|---|---|---|---|---|---|---|---|---|')
print('\n'.join(rows))
